"""cythonlite: source-to-source translation pyx -> Python for exactly the Cython constructs used by
depccg/parsing.pyx, plus a ctypes runtime backed by harness/shim/parsing_shim.cpp (DESIGN 2.2).
Anything the translator does not know makes it raise Untranslatable (machinery failure, exit 2)."""
import re, ctypes, numpy, sys, types

STRUCTS = ('combinator_result', 'pair', 'unordered_set', 'cache_type', 'config')

def split_params(s):
    out, depth, cur = [], 0, ''
    for ch in s:
        if ch in '[(': depth += 1
        if ch in '])': depth -= 1
        if ch == ',' and depth == 0:
            out.append(cur); cur = ''
        else:
            cur += ch
    if cur.strip(): out.append(cur)
    return [p.strip() for p in out if p.strip()]

def param_name(p):
    if p.startswith('*'): return p
    default = None
    if '=' in p:
        p, default = p.split('=', 1)
    name = re.findall(r'[A-Za-z_]\w*', p)[-1]
    return name if default is None else f'{name}={default.strip()}'

def translate(src):
    lines = src.split('\n')
    out = []
    i = 0
    typed_buffers = set()
    while i < len(lines):
        line = lines[i]
        st = line.strip()
        if re.match(r'^(from\s+\S+\s+cimport|cimport)\b', st):
            i += 1; continue
        if re.match(r'^cdef extern from', st):
            i += 1
            while i < len(lines) and (lines[i].strip() == '' or lines[i].startswith((' ', '\t'))):
                i += 1
            continue
        m = re.match(r'^(\s*)(cdef|def)\s+(.*)$', line)
        if m and '(' in line and (m.group(2) == 'def' or re.match(r'^\s*cdef\s+[\w\s\*\[\],]*?\b\w+\s*\(', line)):
            # function header: join until the line that ends with ':' at paren depth 0
            hdr = line; depth = line.count('(') - line.count(')')
            while not (depth == 0 and hdr.rstrip().endswith(':')):
                i += 1; hdr += '\n' + lines[i]; depth += lines[i].count('(') - lines[i].count(')')
            indent = m.group(1)
            flat = ' '.join(hdr.split())
            mm = re.match(r'^(cdef|def)\s+(.*?)(\w+)\s*\((.*)\)\s*(.*):$', flat)
            name, params, tail = mm.group(3), mm.group(4), mm.group(5)
            ret = ''
            mret = re.search(r'->\s*([^:]+)$', tail)
            if mret: ret = ' -> ' + mret.group(1).strip()
            names = [param_name(p) for p in split_params(params)]
            out.append(f'{indent}def {name}({", ".join(names)}){ret}:')
            i += 1; continue
        m = re.match(r'^(\s*)cdef\s+(.*)$', line)
        if m:
            indent, decl = m.groups()
            ms = re.match(r'^(combinator_result|pair\[.*?\]|unordered_set\[.*?\]|cache_type|config)\s+(\w+)$', decl)
            if ms:
                ctor = re.match(r'\w+', ms.group(1)).group(0)
                out.append(f'{indent}{ms.group(2)} = _rt.{ctor}()')
            elif decl.startswith('np.ndarray'):
                mb = re.match(r'^np\.ndarray\[(\w+),\s*ndim=(\d+).*?\]\s+(\w+)$', decl)
                typed_buffers.add((mb.group(3), mb.group(1), int(mb.group(2))))
                out.append(f'{indent}pass')
            elif '=' in decl:
                lhs, rhs = decl.split('=', 1)
                out.append(f'{indent}{re.findall(r"[A-Za-z_]\w*", lhs)[-1]} = {rhs.strip()}')
            else:
                out.append(f'{indent}pass')
            i += 1; continue
        out.append(line); i += 1
    res = []
    for line in out:
        line = re.sub(r'<\s*float\s*\*\s*>\s*(\w+)\.data', r'_rt.float_ptr(\1)', line)
        line = re.sub(r'<\s*(object|void\s*\*)\s*>', '', line)
        line = re.sub(r'(?<![\w\)\]])&(\w+)', r'\1', line)
        line = re.sub(r'\bNULL\b', '_rt.NULL', line)
        line = re.sub(r'\bUINT_MAX\b', '_rt.UINT_MAX', line)
        line = re.sub(r'(?<![\w.])parse_sentence\(', '_rt.parse_sentence(', line)
        res.append(line)
        mf = re.match(r'^(\s*)for\s+(.+?)\s+in\s+.*:\s*$', line)
        if mf:
            for (nm, ty, nd) in sorted(typed_buffers):
                if re.search(rf'\b{nm}\b', mf.group(2)):
                    res.append(f'{mf.group(1)}    {nm} = _rt.check_buffer({nm}, "{ty}", {nd})')
    return '\n'.join(res)

# ---------------- runtime -----------------
class _Null:
    def __eq__(self, o): return o is self or (hasattr(o, '_addr') and not o._addr)
    def __bool__(self): return False
    __hash__ = object.__hash__

class Runtime:
    UINT_MAX = 0xFFFFFFFF
    def __init__(self, lib):
        L = self.L = ctypes.CDLL(lib)
        vp, u, f, i = ctypes.c_void_p, ctypes.c_uint, ctypes.c_float, ctypes.c_int
        L.v_cache_new.restype = vp; L.v_cache_free.argtypes = [vp]
        L.v_cache_size.argtypes = [vp, u, u]; L.v_cache_size.restype = i
        L.v_cache_get.argtypes = [vp, u, u, u]; L.v_cache_get.restype = vp
        L.v_vec_push.argtypes = [vp, u, u, i, ctypes.c_char_p, ctypes.c_char_p]
        for n, rt in [('v_cr_cat', u), ('v_cr_rule', u), ('v_cr_hl', i), ('v_cr_s1', ctypes.c_char_p), ('v_cr_s2', ctypes.c_char_p),
                      ('v_it_fin', i), ('v_it_cat', u), ('v_it_left', vp), ('v_it_right', vp), ('v_it_in', f), ('v_it_out', f), ('v_it_score', f),
                      ('v_it_start', u), ('v_it_len', u), ('v_it_head', u), ('v_it_rule', u)]:
            getattr(L, n).argtypes = [vp]; getattr(L, n).restype = rt
        self.SCAF = ctypes.CFUNCTYPE(i, vp, u, u, vp)
        self.FIN = ctypes.CFUNCTYPE(u, vp, ctypes.POINTER(u), vp, vp)
        L.v_parse.argtypes = [vp, vp, u, ctypes.POINTER(u), u, vp, vp, self.FIN, self.SCAF, vp, vp, u, f, f, i, u, u, u, ctypes.POINTER(u), ctypes.c_char_p, i]
        L.v_parse.restype = i
        self.NULL = _Null()
        rt = self
        class Item:
            def __init__(s, addr): s._addr = addr or 0
            def __eq__(s, o): return (o is rt.NULL and not s._addr) or (isinstance(o, Item) and o._addr == s._addr)
            __hash__ = object.__hash__
            fin = property(lambda s: bool(L.v_it_fin(s._addr))); cat = property(lambda s: L.v_it_cat(s._addr))
            left = property(lambda s: Item(L.v_it_left(s._addr))); right = property(lambda s: Item(L.v_it_right(s._addr)))
            in_score = property(lambda s: L.v_it_in(s._addr)); out_score = property(lambda s: L.v_it_out(s._addr))
            start_of_span = property(lambda s: L.v_it_start(s._addr)); span_length = property(lambda s: L.v_it_len(s._addr))
            head_id = property(lambda s: L.v_it_head(s._addr)); rule_id = property(lambda s: L.v_it_rule(s._addr))
            def score(s): return L.v_it_score(s._addr)
        self.Item = Item
        class CR:
            def __init__(s, p): s._p = p
            cat_id = property(lambda s: L.v_cr_cat(s._p)); rule_id = property(lambda s: L.v_cr_rule(s._p))
            head_is_left = property(lambda s: bool(L.v_cr_hl(s._p))); op_string = property(lambda s: L.v_cr_s1(s._p)); op_symbol = property(lambda s: L.v_cr_s2(s._p))
        class Vec:
            def __init__(s, c, a, b): s.c, s.a, s.b = c, a, b
            def __getitem__(s, idx):
                n = L.v_cache_size(s.c, s.a, s.b)
                if n < 0 or not (0 <= idx < n): raise IndexError(f'C++ UB: cache[{s.a},{s.b}][{idx}] size {n}')
                return CR(L.v_cache_get(s.c, s.a, s.b, idx))
        class Cache:
            def __init__(s, ptr=None): s.own = ptr is None; s.ptr = ptr if ptr is not None else L.v_cache_new()
            def __getitem__(s, k):
                if isinstance(k, int): return s            # pointer deref cache[0]
                return Vec(s.ptr, k.first, k.second)
            def __del__(s):
                if s.own: L.v_cache_free(s.ptr)
        self.Cache = Cache
        class VecOut:
            def __init__(s, p): s.p = p
            def push_back(s, r): L.v_vec_push(s.p, r.cat_id, r.rule_id, int(bool(r.head_is_left)), r.op_string, r.op_symbol)
        self.VecOut = VecOut
    def hook_on(self):
        L = self.L
        L.v_hook_on.restype = ctypes.c_int
        return bool(L.v_hook_on())
    def hook_off(self): self.L.v_hook_off()
    def pops_clear(self): self.L.v_pops_clear()
    def pops(self):
        L = self.L; n = L.v_pops_n(); out = []
        fin = ctypes.c_int(); u5 = (ctypes.c_uint * 5)(); f2 = (ctypes.c_float * 2)(); a3 = (ctypes.c_ulonglong * 3)()
        for i in range(n):
            L.v_pop_get(i, ctypes.byref(fin), u5, f2, a3)
            out.append({'fin': bool(fin.value), 'cat': u5[0], 'start': u5[1], 'len': u5[2], 'head': u5[3], 'rule': u5[4],
                        'in': f2[0], 'out': f2[1], 'stored': a3[0], 'left': a3[1], 'right': a3[2]})
        return out
    def combinator_result(self): return types.SimpleNamespace(cat_id=0, rule_id=0, head_is_left=False, op_string=b'', op_symbol=b'')
    def pair(self):
        class P:
            def __setattr__(s, k, v): object.__setattr__(s, k, int(v) & 0xFFFFFFFF)
        p = P(); p.first = 0; p.second = 0; return p
    def unordered_set(self):
        class S(set):
            def insert(s, v): s.add(int(v))
        return S()
    def cache_type(self): return self.Cache()
    def config(self): return types.SimpleNamespace()
    def float_ptr(self, arr): return arr
    def check_buffer(self, arr, ty, nd):
        if not isinstance(arr, numpy.ndarray): raise TypeError('Cannot convert %s to numpy.ndarray' % type(arr).__name__)
        if arr.ndim != nd: raise ValueError('Buffer has wrong number of dimensions (expected %d, got %d)' % (nd, arr.ndim))
        if arr.dtype != numpy.float32: raise ValueError("Buffer dtype mismatch, expected 'float' but got '%s'" % arr.dtype)
        if not arr.flags['C_CONTIGUOUS']: raise ValueError('ndarray is not C-contiguous')
        return arr
    def parse_sentence(self, tag, dep, length, roots, bcb, ucb, fin, scaf, fargs, cache, cfg):
        reg = {1: bcb, 2: ucb, 3: fargs}; pending = []
        def scaf_t(h, x, y, vec):
            try: return scaf(reg[h], x, y, self.VecOut(vec))
            except BaseException as e: pending.append(e); return -1
        def fin_t(item, tok, cptr, h):
            try: return fin(self.Item(item), tok, self.Cache(cptr), reg[h]) or 0
            except BaseException as e: sys.stderr.write('unraisable in noexcept finalizer: %r\n' % (e,)); return 0
        rs = (ctypes.c_uint * len(roots))(*sorted(roots)); status = ctypes.c_uint(0); err = ctypes.create_string_buffer(256)
        rc = self.L.v_parse(tag.ctypes.data, dep.ctypes.data, length, rs, len(roots), 1, 2, self.FIN(fin_t), self.SCAF(scaf_t), 3, cache.ptr,
                            cfg.num_tags, cfg.unary_penalty, cfg.beta, int(bool(cfg.use_beta)), cfg.pruning_size, cfg.nbest, cfg.max_step, ctypes.byref(status), err, 256)
        if rc != 0:
            if pending: raise pending[0]
            raise RuntimeError(err.value.decode())
        return status.value

class Untranslatable(Exception):
    pass


def load(pyx_path, lib):
    try:
        src = translate(open(pyx_path).read())
    except Exception as e:
        raise Untranslatable('cythonlite cannot translate %s: %r' % (pyx_path, e))
    for ln, line in enumerate(src.split('\n'), 1):
        st = line.strip()
        if re.match(r'^(cdef|cpdef|ctypedef|cimport)\b', st) or re.search(r'<\s*\w[\w\s\*]*>\s*\w', st) and 'import' not in st and not st.startswith('#') and '"' not in st and "'" not in st:
            raise Untranslatable('cythonlite: residual Cython construct at line %d: %s' % (ln, st))
    try:
        code = compile(src, pyx_path + '<cythonlite>', 'exec')
    except SyntaxError as e:
        raise Untranslatable('cythonlite: translated source does not compile: %r' % (e,))
    mod = types.ModuleType('depccg._parsing'); mod.__dict__['_rt'] = Runtime(lib)
    exec(code, mod.__dict__)
    return mod, src
