"""C04 - Japanese combinatory rules are sound; unary steps are labelled by the shape of their input.
Spec: GrammarJa.tla (laws in MCGrammarJa), binding: traces/RulesTrace.tla."""
import json
import os
import random
import time

from ..common import NCPU, REPO, Machinery, Violation, conclude, seed
from ..tlc import run_tlc, require_clean
from ..trace import validate
from .. import enc, gen, inventory, rules

PROP = 'C04'
SYMS = ['>', '<', '>B', '<B1', '<B2', '<B3', '<B4', '>Bx1', '>Bx2', '>Bx3', 'SSEQ']


def model(cfg, timeout=900):
    r = require_clean(run_tlc('MCGrammarJa.tla', cfg, workers=NCPU, timeout=timeout), cfg)
    if r.violated:
        raise Machinery('%s: %s violated (specification inconsistent)\n%s' % (cfg, r.violated, r.out[-1500:]))
    return r


def T(**kv):
    return {'t': 'T', 'kv': [{'k': k, 'v': v, 'x': v.startswith('X')} for k, v in kv.items()]}


def synthetic_unary_inputs():
    """bounded synthetic left-hand sides: S[mod=m,...] minus 0..3 backward NP arguments, NP heads, other shapes"""
    out = []
    nps = [gen.atom('NP', T(case=c, mod='nm', fin='f')) for c in ('ga', 'o', 'ni')]
    for mod in ('adn', 'adv', 'nm'):
        for form in ('base', 'cont'):
            head = gen.atom('S', T(mod=mod, form=form, fin='f'))
            cur = head
            out.append(cur)
            for i in range(3):
                cur = gen.fun(cur, '\\', nps[i])
                out.append(cur)
            out.append(gen.fun(head, '/', nps[0]))                      # not a clause shape
            out.append(gen.fun(head, '\\', gen.atom('S', T(mod='nm', form='base', fin='f'))))
        out.append(gen.atom('NP', T(case='nc', mod=mod, fin='f')))
    return out


def run(tier):
    t0 = time.time()
    rng = random.Random(seed())
    cov = {'tlc_runs': []}
    states = trans = 0
    pairs, srcs = [], []
    cfgs = ['MCGrammarJa_tiny2.cfg', 'MCGrammarJa_spine.cfg'] + (['MCGrammarJa_mid2.cfg'] if tier == 'thorough' else [])
    for cfg in cfgs:
        r = model(cfg)
        states += r.distinct
        trans += r.generated
        vecs = [json.loads(s) for s in r.tagged('VEC')]
        cov['tlc_runs'].append({'cfg': cfg, 'distinct': r.distinct, 'vectors': len(vecs), 'wall_s': round(r.wall, 1)})
        for v in vecs:
            pairs.append((v['x'], v['y']))
            srcs.append('tlc:' + cfg)
    n_tlc = len(pairs)
    if n_tlc < 10000:
        raise Machinery('too few TLC vectors: %d' % n_tlc)
    tg = [enc.parse_text(s) for s in inventory.targets('ja')]
    with open(os.path.join(REPO, 'tests', 'grammar', 'rules.ja.txt'), encoding='utf-8') as f:
        for ln in f:
            _, a, b = ln.split()
            pairs.append((enc.parse_text(a), enc.parse_text(b)))
            srcs.append('tests/grammar/rules.ja.txt')
    for a, b in inventory.seen_rules('ja'):
        pairs.append((enc.parse_text(a), enc.parse_text(b)))
        srcs.append('seen_rules.ja')
    from depccg.grammar import ja as jamod
    roots = [enc.parse_text(t) for t in inventory.JA_ROOTS_SPEC]
    # saturated clauses in every form x fin combination: most are possible roots, some are not
    others = [enc.parse_text('S[mod=nm,form=%s,fin=%s]' % (f, x)) for f in ('attr', 'hyp', 'r', 's', 'base', 'neg') for x in ('f', 't')]
    others = [c for c in others if c not in roots] + [enc.parse_text('NP[case=ga,mod=nm,fin=f]'), enc.parse_text('S[mod=adn,form=base,fin=f]')]
    pool = roots + others
    for a in pool:
        for b in pool:
            pairs.append((a, b))
            srcs.append('roots')
    # shared part b = a functor of 3-5 atoms, the two occurrences differing in one atom's feature (any position) or in nothing
    for x, y, note in gen.deep_pairs(rng, 'ja', 4000 if tier == 'quick' else 40000):
        pairs.append((x, y))
        srcs.append('deep-shared-part: ' + note)
    if tier == 'quick':
        for _ in range(30000):
            pairs.append((rng.choice(tg), rng.choice(tg)))
            srcs.append('inventory-sample')
    else:
        for x in tg:
            for y in tg:
                pairs.append((x, y))
                srcs.append('targets.ja')
    events, metas = rules.bin_events(pairs, 'ja', 'c04')
    for i, s in enumerate(srcs):
        metas[i + 1]['src'] = s
    n_closure = 0
    evs = events
    for rd in range(1 if tier == 'quick' else 2):
        pool = rules.closure_pairs(evs, rng, 0)
        cap = 20000 if tier == 'quick' else 150000
        cp = []
        for _ in range(cap):
            a = rng.choice(pool)
            b = rng.choice(pool) if rng.random() < 0.5 else rng.choice(tg)
            cp.append((a, b) if rng.random() < 0.5 else (b, a))
        evs, ms = rules.bin_events(cp, 'ja', 'c04c', start_id=len(events))
        for k in ms:
            ms[k]['src'] = 'closure-%d' % (rd + 1)
        events += evs
        metas.update(ms)
        n_closure += len(cp)
    # ---- unary steps: every left-hand side of the shipped table (real table), and synthetic ones (inline table)
    tasks, uinfo = [], []
    lhs_shipped = []
    for a, _ in inventory.unary_rules('ja'):
        if a not in lhs_shipped:
            lhs_shipped.append(a)
    for a in lhs_shipped:
        tasks.append({'t': len(tasks), 'op': 'un', 'lang': 'ja', 'x': enc.parse_text(a), 'unary': 'ja'})
        uinfo.append(('ja', None))
    target = enc.parse_text('NP[case=nc,mod=X1,fin=X2]/NP[case=nc,mod=X1,fin=X2]')
    for xv in synthetic_unary_inputs():
        tab = [[xv, target], [xv, enc.parse_text('S[mod=X1,form=X2,fin=X3]/S[mod=X1,form=X2,fin=X3]')]]
        tasks.append({'t': len(tasks), 'op': 'un', 'lang': 'ja', 'x': xv, 'table': tab})
        uinfo.append(('inline', tab))
    obs = rules.run_tasks(tasks, 'c04u')
    n_un = 0
    for t in tasks:
        o = obs[t['t']][0]
        eid = len(events) + 1
        tabname, tab = uinfo[t['t']]
        events.append({'e': 'un', 'id': eid, 'lang': 'ja', 'x': t['x'], 'table': tabname, 'tab': tab or [], 'raised': o['raised'],
                       'res': o['res'], 'xa': o['x_after']})
        metas[eid] = {'x': enc.show_cat(t['x']), 'y': '(unary)', 'src': 'unary:' + tabname, 'raised': o['exc'],
                      'results': [(enc.show_cat(r['c']), r['op'], r['sym']) for r in o['res']]}
        n_un += 1
    rejects, stats = validate('traces/RulesTrace.tla', events, 'c04', per_shard=15000, env={'AUX_FILE': rules.aux_file()})
    from ..trace import binding_demo

    def flip_head(e):
        if e['e'] == 'bin' and e['res']:
            e['res'][0]['hl'] = not e['res'][0]['hl']
            return e

    def wrong_cat(e):
        if e['e'] == 'bin' and e['res'] and e['res'][0]['c']['k'] == 'F':
            e['res'][0]['c'] = e['res'][0]['c']['l']
            return e
    demo = binding_demo('traces/RulesTrace.tla', events, [('head_flag_flipped', flip_head), ('result_replaced_by_its_left_part', wrong_cat)], 'c04', env={'AUX_FILE': rules.aux_file()})
    viols = []
    for (i, clause) in rejects:
        if not clause.startswith('C04.'):
            continue
        m = metas[i]
        viols.append(Violation(PROP, clause, '%s  %s' % (m['x'], m['y']), m))
    by_sym, nonmod = {}, {}
    for e in events:
        if e['e'] != 'bin':
            continue
        for r in e['res']:
            by_sym[r['sym']] = by_sym.get(r['sym'], 0) + 1
            if r['c'] != e['x'] and r['c'] != e['y']:
                nonmod[r['sym']] = nonmod.get(r['sym'], 0) + 1
    cov.update({
        'states': states + stats.states,
        'transitions': trans + stats.transitions,
        'traces_validated_against_impl': len(events),
        'binding_demonstration': demo,
        'exhaustive': tier == 'thorough',
        'events': {'tlc_vectors_replayed': n_tlc, 'inventory_and_test_pairs': len(pairs) - n_tlc, 'closure_pairs': n_closure,
                   'unary_events': n_un, 'results_by_symbol': by_sym, 'non_modifier_results_by_symbol': nonmod},
        'samples': [metas[i] for i in (1, n_tlc // 3, n_tlc + 1, n_tlc + 2500, len(events))],
        'checker_cmd': stats.cmds[0] if stats.cmds else '',
        'rule': 'all pairs of the MCGrammarJa universes incl. left spines up to depth 3 (TLC) + test triples + seen rules + inventory pairs + closure; unary: every shipped left-hand side and bounded synthetic ones',
    })
    for s in SYMS:
        if not nonmod.get(s) and s != 'SSEQ':
            raise Machinery('vacuity: no non-modifier result with symbol %s was observed' % s)
    if not by_sym.get('SSEQ'):
        raise Machinery('vacuity: no SSEQ result observed')
    return conclude(PROP, tier, viols, cov, t0, [
        'inputs carry feature triples only (the two feature systems are never mixed on one atom position) and the slashes / and \\',
        'feature triples whose variables point in opposite directions: compatibility unspecified, nothing demanded of such results',
        'unary labels are demanded only for S minus backward NP arguments with mod=adn (0 or 1 missing) or mod=adv (0, 1, 2 missing); elsewhere the statement is silent',
        'the root set used by SSEQ is read from depccg.grammar.ja._possible_root_categories (configuration)',
    ])
