"""C06 - pattern matching succeeds exactly when it should.  Spec: Unify.tla (declarative relation,
laws model-checked in MCUnify), UnifyObj.tla (life-cycle); binding: traces/UnifyTrace.tla."""
import json
import random
import time

from ..common import NCPU, Machinery, Violation, conclude, seed
from ..tlc import run_tlc, require_clean
from ..trace import validate
from .. import enc, gen, inventory

PROP = 'C06'


def model(mod, cfg, timeout=900):
    r = require_clean(run_tlc(mod, cfg, workers=NCPU, timeout=timeout), cfg)
    if r.violated:
        raise Machinery('%s: %s violated (specification inconsistent)\n%s' % (cfg, r.violated, r.out[-1500:]))
    return r


def grammar_patterns():
    """pattern pairs the grammars really use: intercept Unification.__init__ while the rule functions run"""
    import depccg.unification as U
    from depccg.grammar import en, ja
    from depccg.cat import Category
    seen = []
    orig = U.Unification.__init__

    def spy(self, mx, my):
        key = (str(mx), str(my))
        if key not in seen:
            seen.append(key)
        orig(self, mx, my)
    U.Unification.__init__ = spy
    try:
        for mod, fn in ((en, 'cats.txt'), (ja, 'cats.ja.txt')):
            import os
            from ..common import REPO
            cats = [Category.parse(l.strip()) for l in open(os.path.join(REPO, 'tests', fn), encoding='utf-8') if l.strip()][:12]
            for x in cats:
                for y in cats:
                    try:
                        mod.apply_binary_rules(x, y)
                    except Exception:
                        pass
    finally:
        U.Unification.__init__ = orig
    return seen


def pat_vars(p):
    out = []
    for a in enc.leaves(p):
        if a['b'] not in out:
            out.append(a['b'])
    return out


def rand_linear_pattern(rng, names):
    """random pattern in which every variable occurs at most once"""
    pool = list(names)
    rng.shuffle(pool)

    def rec(d):
        if d == 0 or rng.random() < 0.4 or len(pool) < 2:
            return gen.atom(pool.pop()) if pool else None
        l = rec(d - 1)
        r = rec(d - 1)
        if l is None or r is None:
            return l or r
        return gen.fun(l, rng.choice('/\\|'), r)
    return rec(2)


def rand_nonlinear_pattern(rng, names):
    """a random pattern in which one variable stands at two places (no grammar pattern does that; Unify!Verdict is
    three-valued there: determined where every reading of 'corresponding positions' agrees)"""
    p = rand_linear_pattern(rng, names)
    if p is None or p['k'] == 'A':
        return p
    ls = enc.leaves(p)
    i, j = rng.sample(range(len(ls)), 2)
    ls[i]['b'] = ls[j]['b']
    return p


def inst(p, sub, rng):
    if p['k'] == 'A':
        return sub[p['b']]
    s = p['s'] if p['s'] != '|' else rng.choice('/\\|')
    return gen.fun(inst(p['l'], sub, rng), s, inst(p['r'], sub, rng))


def perturb(c, rng, system):
    """change the feature of one leaf (flip / drop / variable / nb) or one slash -> '|'"""
    ls = enc.leaves(c)
    k = rng.randrange(len(ls))
    mode = rng.random()
    cnt = [0]

    def rec(n):
        if n['k'] == 'F':
            l = rec(n['l'])
            r = rec(n['r'])
            s = n['s']
            if mode > 0.85 and rng.random() < 0.5:
                s = rng.choice('/\\|')
            return gen.fun(l, s, r)
        i = cnt[0]
        cnt[0] += 1
        if i != k or n['b'] in gen.PUNCT:
            return n
        if n['f']['t'] == 'U':
            return gen.atom(n['b'], gen.uf(rng.choice(['', 'X', 'nb', 'dcl', 'b', 'em'])))
        kv = [dict(e) for e in n['f']['kv']]
        j = rng.randrange(3)
        kv[j]['v'] = rng.choice(['X1', 'X2', 'nm', 'f', 't', 'base', 'ga', 'adn'])
        kv[j]['x'] = kv[j]['v'].startswith('X')
        return gen.atom(n['b'], {'t': 'T', 'kv': kv})
    return rec(c)


def set_leaf(c, k, rng, system):
    """c with the feature of its k-th leaf replaced by a random concrete / variable / absent feature"""
    cnt = [0]

    def rec(n):
        if n['k'] == 'F':
            l = rec(n['l'])
            return gen.fun(l, n['s'], rec(n['r']))
        i = cnt[0]
        cnt[0] += 1
        if i != k or n['b'] in gen.PUNCT:
            return n
        if rng.random() < 0.15:
            # the other feature system on this position (a feature-less or one-part atom against a three-part one)
            if n['f']['t'] == 'U':
                return gen.atom(n['b'], gen.tf(gen.JA_KEYS if n['b'] != 'NP' else gen.JA_NP, rng))
            return gen.atom(n['b'], gen.uf(rng.choice(['', '', 'nb', 'X', 'dcl'])))
        if n['f']['t'] == 'U':
            return gen.atom(n['b'], gen.uf(rng.choice(['', 'X', 'nb', 'dcl', 'b', 'em', 'expl', 'thr'])))
        kv = [dict(e) for e in n['f']['kv']]
        j = rng.randrange(3)
        kv[j]['v'] = rng.choice(['X1', 'nm', 'f', 't', 'base', 'ga', 'o', 'adn'])
        kv[j]['x'] = kv[j]['v'].startswith('X')
        if rng.random() < 0.35:
            # an independent layout of variables and constants over all three slots: the two sides then have their variables in
            # different slots (neither is an instance of the other), or one side is an instance of a partly variable other side
            for i in range(3):
                r = rng.random()
                if r < 0.4:
                    kv[i]['v'] = 'X%d' % rng.randint(1, 3)
                elif r < 0.5:
                    kv[i]['v'] = rng.choice(['nm', 'f', 't', 'base', 'ga', 'nc'])
                kv[i]['x'] = kv[i]['v'].startswith('X')
        if rng.random() < 0.2:
            # another attribute name in one slot (features with different attribute lists never match), often next to a variable
            i = rng.randrange(3)
            kv[i]['k'] = rng.choice([k for k in ('case', 'mod', 'form', 'fin', 'kind') if k not in [e['k'] for e in kv]])
            if rng.random() < 0.6:
                kv[i]['v'], kv[i]['x'] = 'X%d' % (i + 1), True
        return gen.atom(n['b'], {'t': 'T', 'kv': kv})
    return rec(c)


def one_call(pxs, pys, px, py, xv, yv):
    """run one real matcher; returns the event (without id)"""
    from depccg.unification import Unification
    x, y = enc.dec_cat(xv), enc.dec_cat(yv)
    u = Unification(pxs, pys)
    ev = {'e': 'call', 'g': 0, 'px': px, 'py': py, 'x': xv, 'y': yv, 'ok': False, 'raised': False, 'binds': [],
          'again_raised': False}
    try:
        ev['ok'] = bool(u(x, y))
    except Exception as e:
        ev['raised'] = True
        ev['exc'] = repr(e)[:120]
    for v in sorted(set(pat_vars(px)) | set(pat_vars(py))):
        try:
            c = u[v]
            ev['binds'].append({'v': v, 'readable': True, 'c': enc.enc_cat(c)})
        except Exception:
            ev['binds'].append({'v': v, 'readable': False, 'c': enc.DUMMY})
    try:
        u(x, y)
    except Exception:
        ev['again_raised'] = True
    ev['x2'], ev['y2'] = enc.enc_cat(x), enc.enc_cat(y)
    return ev


def run(tier):
    t0 = time.time()
    rng = random.Random(seed())
    cov = {'tlc_runs': []}
    states = trans = 0
    outs = {}
    for mod, cfg in (('UnifyObj.tla', 'UnifyObj.cfg'), ('MCUnify.tla', 'MCUnify_en.cfg'), ('MCUnify.tla', 'MCUnify_ja.cfg')):
        r = model(mod, cfg)
        outs[cfg] = r
        states += r.distinct
        trans += r.generated
        cov['tlc_runs'].append({'cfg': cfg, 'distinct': r.distinct, 'generated': r.generated, 'wall_s': round(r.wall, 1)})
    mc_pats = [("a/b", "b"), ("b", "a\\b"), ("a/b", "b/c"), ("b/c", "a\\b"), ("a/b", "(b/c)|d"), ("(b\\c)|d", "a\\b"),
               ("a/a", "a"), ("b", "b\\b"), ("a|b", "b/a")]          # the last three are not linear
    events, metas = [], {}
    eid = [0]

    def add(ev, meta):
        eid[0] += 1
        ev['id'] = eid[0]
        ev.pop('exc', None)
        events.append(ev)
        metas[eid[0]] = meta

    def call(pxs, pys, xv, yv, src):
        px, py = enc.parse_text(pxs), enc.parse_text(pys)
        ev = one_call(pxs, pys, px, py, xv, yv)
        add(ev, {'patterns': [pxs, pys], 'x': enc.show_cat(xv), 'y': enc.show_cat(yv), 'src': src, 'ok': ev['ok'],
                 'binds': {b['v']: (enc.show_cat(b['c']) if b['readable'] else None) for b in ev['binds']}})
        return ev
    # ---- spec -> code: every state of the MCUnify universes
    n_vec = 0
    agree = {'ok': 0, 'fail': 0, 'unspec': 0}
    for cfg in ('MCUnify_en.cfg', 'MCUnify_ja.cfg'):
        for s in outs[cfg].tagged('VEC'):
            vec = json.loads(s)
            pxs, pys = mc_pats[vec['pi'] - 1]
            call(pxs, pys, vec['x'], vec['y'], 'tlc')
            agree[vec['vd']] += 1
            n_vec += 1
    if n_vec < 5000:
        raise Machinery('too few TLC vectors: %d' % n_vec)
    # ---- patterns of the grammars + random linear patterns
    gpats = grammar_patterns()
    if len(gpats) < 10:
        raise Machinery('pattern interception found only %d pattern pairs' % len(gpats))
    rpats = []
    while len(rpats) < 12:
        p1 = rand_linear_pattern(rng, 'abcd')
        p2 = rand_linear_pattern(rng, 'abce')
        if p1 and p2:
            rpats.append((enc.show_cat(p1), enc.show_cat(p2)))
    while len(rpats) < 24:
        p1 = rand_nonlinear_pattern(rng, 'abcd')
        p2 = (rand_nonlinear_pattern if rng.random() < 0.3 else rand_linear_pattern)(rng, 'abce')
        if p1 and p2:
            rpats.append((enc.show_cat(p1), enc.show_cat(p2)))
    from depccg.cat import Category
    inv_en = [enc.enc_cat(Category.parse(s)) for s in inventory.targets('en')]
    inv_ja = [enc.enc_cat(Category.parse(s)) for s in inventory.targets('ja')]
    n_per = 400 if tier == 'quick' else 6000
    n_inst = n_rand = 0
    for (pxs, pys) in gpats + rpats:
        px, py = enc.parse_text(pxs), enc.parse_text(pys)
        vs = sorted(set(pat_vars(px)) | set(pat_vars(py)))
        for i in range(n_per):
            system = 'en' if i % 2 == 0 else 'ja'
            inv = inv_en if system == 'en' else inv_ja
            mode = i % 6
            if mode >= 4:       # paired perturbation: one leaf of a shared variable gets features (f1, f2) on the two sides
                pool = inv if rng.random() < 0.5 else [gen.rand_cat(rng, rng.choice([1, 2, 2, 3]), system) for _ in range(4)]
                sub = {v: rng.choice(pool) for v in vs}
                shared = [v for v in vs if v in pat_vars(px) and v in pat_vars(py)]
                subx, suby = dict(sub), dict(sub)
                if shared:
                    v = rng.choice(shared)
                    k = rng.randrange(len(enc.leaves(sub[v])))
                    subx[v] = set_leaf(sub[v], k, rng, system)
                    suby[v] = set_leaf(sub[v], k, rng, system)
                xv, yv = inst(px, subx, rng), inst(py, suby, rng)
                n_inst += 1
                call(pxs, pys, xv, yv, 'driver-paired')
                continue
            if mode == 0:       # random inventory pair
                xv, yv = rng.choice(inv), rng.choice(inv)
                n_rand += 1
            else:               # instantiate the patterns, then perturb
                pool = inv if rng.random() < 0.5 else [gen.rand_cat(rng, rng.choice([0, 1, 1, 2]), system) for _ in range(4)]
                sub = {v: rng.choice(pool) for v in vs}
                xv, yv = inst(px, sub, rng), inst(py, sub, rng)
                if mode >= 2:
                    yv = perturb(yv, rng, system)
                if mode == 3:
                    xv = perturb(xv, rng, system)
                n_inst += 1
            call(pxs, pys, xv, yv, 'driver')
    # ---- life-cycle histories from TLC
    hists = [json.loads(s) for s in outs['UnifyObj.cfg'].tagged('VEC')]
    from depccg.unification import Unification
    g = 0
    okx, oky = Category.parse('S[dcl]/NP'), Category.parse('NP')
    badx, bady = Category.parse('S[dcl]/NP'), Category.parse('S[dcl]')
    for h in hists:
        g += 1
        u = Unification('a/b', 'b')
        add({'e': 'lcreset', 'g': g}, {'history': h})
        for a in h:
            a = a.replace('refused_', '')
            refused, ret = False, False
            try:
                if a == 'call_ok':
                    ret = bool(u(okx, oky))
                elif a == 'call_fail':
                    ret = bool(u(badx, bady))
                else:
                    u['a']
            except Exception:
                refused = True
            add({'e': 'lc', 'g': g, 'a': a, 'refused': refused, 'ret': ret}, {'history': h, 'action': a})
    rejects, stats = validate('traces/UnifyTrace.tla', events, 'c06', per_shard=8000, group='g')
    from ..trace import binding_demo

    def flip_ok(e):
        if e['e'] == 'call' and not e['raised']:
            e['ok'] = not e['ok']
            return e

    def wrong_binding(e):
        if e['e'] == 'call' and e['ok'] and e['binds'] and e['binds'][0]['c']['k'] == 'A':
            e['binds'][0]['c'] = {'k': 'A', 'b': 'ZZ', 'f': e['binds'][0]['c']['f']}
            return e
    demo = binding_demo('traces/UnifyTrace.tla', events, [('verdict_flipped', flip_ok), ('binding_replaced', wrong_binding)], 'c06', group='g')
    viols = []
    for (i, clause) in rejects:
        m = metas[i]
        if 'patterns' in m:
            key = '%s , %s : %s , %s' % (m['patterns'][0], m['patterns'][1], m['x'], m['y'])
        else:
            key = ' '.join(m['history'])
        viols.append(Violation(PROP, clause, key, m))
    n_ok = sum(1 for e in events if e['e'] == 'call' and e['ok'])
    cov.update({
        'states': states + stats.states,
        'transitions': trans + stats.transitions,
        'traces_validated_against_impl': len(events),
        'exhaustive': True,
        'binding_demonstration': demo,
        'events': {'tlc_vectors_replayed': n_vec, 'tlc_verdicts': agree, 'pattern_pairs_of_grammars': len(gpats), 'random_patterns': len(rpats),
                   'instantiated_inputs': n_inst, 'random_inventory_pairs': n_rand, 'lifecycle_histories': len(hists),
                   'successful_matches': n_ok},
        'grammar_patterns': gpats,
        'samples': [metas[i] for i in (1, n_vec // 2, n_vec + 3, n_vec + 4, len(events))],
        'checker_cmd': stats.cmds[0] if stats.cmds else '',
        'rule': 'every state of MCUnify (6 pattern pairs x all pairs of the depth-1 universes, both feature systems) replayed; pattern pairs intercepted from en.py/ja.py and random linear patterns on inventory pairs, instantiations and perturbed instantiations; all length-4 life-cycle histories from UnifyObj',
    })
    return conclude(PROP, tier, viols, cov, t0, [
        'a position carrying a three-part feature on one side and a one-part feature on the other is compatible exactly when the one-part side is absent, nb or a variable',
        'feature triples whose variables point in opposite directions are unspecified: either answer accepted',
        'where a variable stands at several places of one pattern (random patterns only) the verdict is required only where the narrowest and the widest reading of "corresponding positions" agree',
    ])
