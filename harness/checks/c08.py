"""C08 - AUTO text written by depccg reads back to the same tree; CoNLL fragments concatenate.
Spec: Formats.tla (Denorm spelling, NodeFails/ReadFails), binding: real auto_of/conll_of -> file -> real read_auto
-> real auto_of, judged by traces/RenderTrace.tla."""
import random
import time

from ..common import Violation, conclude, seed
from ..trace import validate
from .. import trees, lexers, substrate, render_family as rf

PROP = 'C08'


def run(tier):
    t0 = time.time()
    rng = random.Random(seed())
    substrate.load(hook=False)
    from depccg.tools.reader import read_auto
    from depccg.printer.auto import auto_of
    from depccg.printer import to_string
    events, metas = [], {}

    def add(ev, meta):
        ev['id'] = len(events) + 1
        events.append(ev)
        metas[ev['id']] = meta
    n = 250 if tier == 'quick' else 4000
    ntrees = 0
    n_train = [0, []]
    for it in range(n):
        lang = 'en' if it % 3 else 'ja'
        rf.set_lang(lang)
        b = trees.make_batch(rng, lang, awkward=0.5, exclude='\\')
        if it % 4 == 1:
            # tokens as read_auto itself makes them (and as a bank leaf with two different tag columns gives): further attributes
            # tag1 / tag2 next to pos.  The line is written from pos (twice), whatever else a token carries
            for sent in b:
                for tr in sent:
                    for lf in trees.leaves_of(tr):
                        if rng.random() < 0.5:
                            lf['tok']['tag1'] = rng.choice(['NN', 'VBZ', lf['tok'].get('pos', 'XX')])
                            lf['tok']['tag2'] = rng.choice(['NNS', 'DT', lf['tok'].get('pos', 'XX')])
        real = trees.real_batch(b, rng)
        base = {'lang': lang, 'words': [[t['tok']['word'] for t in trees.leaves_of(s[0])] for s in b]}
        # what the AUTO text denotes (independent lexer), then the real reader
        rf.render_events(PROP, 'auto', lang, b, real, add, base)
        text, results = rf.read_back(PROP, 'auto', lang, real, add, base, reader=read_auto, suffix='.auto')
        if results is not None:
            lines = [ln for ln in text.split('\n') if ln and not ln.startswith('ID=')]
            for ln, res in zip(lines, results):
                ntrees += 1
                try:
                    again = auto_of(res.tree)
                except Exception as e:
                    again = 'RAISED ' + repr(e)[:100]
                add({'e': 'text_eq', 'p': PROP, 'fmt': 'auto', 'what': 'reprinted_line_differs', 'a': ln, 'b': again}, dict(base, fmt='auto', text=ln[:600], reprinted=again[:600]))
        # the training-data creator on the same file (outside the listed properties: a statistic): words, leaf categories and
        # head-first dependencies of every tree, judged by Formats!TrainFails on the tree the reader returned
        if results is not None and text is not None:
            try:
                from depccg.tools.data import convert_auto_to_json
                samples = convert_auto_to_json(rf.write_tmp(text, '.auto'))
                kept = [res for res in results if not (res.tree.is_leaf and res.tree.word == 'FAILED')]
                for res, (sent, (cs, ds)) in zip(kept, samples):
                    ws = sent.split(' ')
                    add({'e': 'train', 'p': 'DATA', 'fmt': 'auto', 'r': rf.proj_read(res.tree),
                         's': {'words': [[ord(ch) for ch in w] for w in ws], 'cats': list(cs), 'deps': [int(x) for x in ds]}}, dict(base, fmt='traindata', text=sent[:300]))
                n_train[0] += len(samples)
            except Exception as e:
                n_train[1].append(repr(e)[:200])
        # CoNLL: last-column fragments concatenate to the AUTO line of the same tree
        real2 = trees.real_batch(b, rng)
        ctext = rf.render_events(PROP, 'conll', lang, b, real2, add, base)
        if ctext is not None:
            try:
                doc = lexers.lex_conll(ctext)
                flat = [st.tree for sent in real2 for st in sent]
                for rec, tr in zip(doc, flat):
                    frag = ' '.join(row['frag'] for row in rec['rows'])
                    add({'e': 'text_eq', 'p': PROP, 'fmt': 'conll', 'what': 'fragments_do_not_concatenate_to_auto_line', 'a': auto_of(tr), 'b': frag},
                        dict(base, fmt='conll', text=frag[:600]))
            except lexers.LexError:
                pass
    from ..tlc import run_tlc, require_clean
    from ..common import NCPU, Machinery
    mr = require_clean(run_tlc('MCFormats.tla', 'MCFormats.cfg' if tier == 'quick' else 'MCFormats_5.cfg', workers=NCPU, timeout=7200, xmx='12g'), 'MCFormats')
    if mr.violated:
        raise Machinery('Formats.tla laws violated (specification inconsistent): %s' % mr.violated)
    rejects, stats = validate('traces/RenderTrace.tla', events, 'c08', per_shard=400)
    demo = rf.render_binding_demo(events, 'c08')
    viols = []
    for (i, clause) in rejects:
        if clause.startswith(PROP + '.'):
            m = metas[i]
            viols.append(Violation(PROP, clause, str(m.get('words'))[:300], m))
    data_dev = {}
    for (i, clause) in rejects:
        if clause.startswith('DATA.'):
            data_dev.setdefault(clause, []).append({k: metas[i][k] for k in ('lang', 'words', 'text') if k in metas[i]})
    if data_dev or n_train[1]:
        print('NOTE training-data creator (outside the listed properties) deviates from Formats!TrainFails: %s %s' % ({c: len(v) for c, v in data_dev.items()}, n_train[1][:2]))
    # the files of the training-data creator against TrainData.tla (outside the listed properties: reported, never a violation)
    from .. import traindata
    from ..common import run_forked, Hang
    try:
        td = run_forked(traindata.conformance, 1800 if tier == 'quick' else 10800, tier, random.Random(seed() + 80))
    except (Hang, Machinery) as e:
        td = {'not_run': str(e)[:300], 'vector_deviations': {}, 'trace_deviations': {}, 'states': 0}
        print('NOTE training-data files against TrainData.tla: not run (%s)' % str(e)[:200])
    if td['vector_deviations'] or td['trace_deviations']:
        print('NOTE training-data creator (outside the listed properties) deviates from TrainData.tla: %s %s' % (td['vector_deviations'], td['trace_deviations']))
    cov = {'training_data_files_against_TrainData_tla': td,
           'training_data_creator_against_Formats': {'samples': n_train[0], 'deviations': {c: len(v) for c, v in data_dev.items()},
                                                      'first_deviation': {c: v[0] for c, v in data_dev.items()}, 'raised': n_train[1][:5]},
           'tlc_runs': [{'cfg': 'MCFormats', 'distinct': mr.distinct, 'generated': mr.generated, 'wall_s': round(mr.wall, 1)}],
           'states': stats.states + mr.distinct, 'transitions': stats.transitions + mr.generated, 'binding_demonstration': demo, 'traces_validated_against_impl': len(events),
           'events': {'batches': n, 'trees_read_back': ntrees, 'events': len(events)},
           'samples': [{k: metas[i][k] for k in metas[i] if k in ('lang', 'fmt', 'words', 'text')} for i in (1, len(events) // 2, len(events))],
           'checker_cmd': stats.cmds[0] if stats.cmds else '',
           'rule': 'random batches (grammar-licensed derivations built with the real en/ja rules, and arbitrary trees with both head directions), tokens from an awkward alphabet without backslashes incl. pure bracket/angle tokens and tokens containing them'}
    return conclude(PROP, tier, viols, cov, t0, [
        'files are what depccg itself writes (to_string(..., "auto"): an ID= header line followed by the derivation line)',
        'rule labels are not part of this property (C12)',
        'words are compared in the escaped spelling specified by Formats!Denorm',
    ])
