"""C01 - A* returns the highest-scoring derivation; pops never increase.
Spec: AStar.tla (exhaustive over score matrices and tie schedules) + Oracles.tla; binding: pop-hook and result
traces of the real parse_sentence judged by traces/ParserTrace.tla."""
from ..common import conclude
from .. import parser_family as pf
from . import parser_models as pm

PROP = 'C01'


def run(tier):
    viols, cov, t0 = pf.run_family(PROP, tier)
    cov = pm.add_model_runs(PROP, tier, cov)
    # design-level conformance: every pop of real searches is a step of AStar.tla (reported, never a violation by itself)
    import random
    from ..common import seed
    from ..common import run_forked, Hang
    try:
        dc = run_forked(pf.design_conformance, 1500 if tier == 'quick' else 14400, tier, random.Random(seed() + 101))
    except Hang as e:
        dc = {'searches': 0, 'agenda_pops_replayed_against_AStar_actions': 0, 'groups': 0, 'states': 0, 'searches_deviating_from_AStar_tla': 0,
              'deviation_clauses': {'DESIGN.replay_did_not_terminate (%s)' % e: 1}, 'invariants_violated_along_real_behaviours': []}
    cov['design_conformance_with_AStar_tla'] = dc
    cov['states'] += dc['states']
    cov['transitions'] += dc['agenda_pops_replayed_against_AStar_actions']
    cov['traces_validated_against_impl'] += dc['searches']
    if dc['searches_deviating_from_AStar_tla'] or dc['invariants_violated_along_real_behaviours']:
        print('NOTE design conformance: %d of %d searches deviate from AStar.tla: %s %s' % (dc['searches_deviating_from_AStar_tla'], dc['searches'],
              dc['deviation_clauses'], dc['invariants_violated_along_real_behaviours']))
    return conclude(PROP, tier, viols, cov, t0, pf.ASSUMPTIONS)
