"""C01 - A* returns the highest-scoring derivation; pops never increase.
Spec: AStar.tla (exhaustive over score matrices and tie schedules) + Oracles.tla; binding: pop-hook and result
traces of the real parse_sentence judged by traces/ParserTrace.tla."""
from ..common import conclude
from .. import parser_family as pf
from . import parser_models as pm

PROP = 'C01'


def run(tier):
    viols, cov, t0 = pf.run_family(PROP, tier)
    cov = pm.add_model_runs(PROP, tier, cov)
    return conclude(PROP, tier, viols, cov, t0, pf.ASSUMPTIONS)
