"""C11 - batch results align with inputs and do not depend on batch history.
Spec: Batch.tla (chunking, per-worker category table / rule cache, collection; all permutations of subsets of a
4-sentence batch x process counts x chunk sizes); binding: TLC-generated schedules and random larger batches run
through the real depccg.parsing.run (real multiprocessing.Pool), judged by traces/BatchTrace.tla."""
import json
import os
import random
import time

import numpy as np

from ..common import NCPU, Machinery, Violation, conclude, seed, run_forked, Hang
from ..tlc import run_tlc, require_clean
from ..trace import validate
from .. import enc, substrate
from .. import parser_family as pf

PROP = 'C11'


def digest(res):
    """one sentence's result list -> text (scores x8 and trees); FAILED for the placeholder"""
    if len(res) == 1 and res[0].score == -float('inf') and res[0].tree.is_leaf and res[0].tree.word == 'FAILED':
        return 'FAILED'
    parts = []
    for r in res:
        def t(n):
            if n.is_leaf:
                # the whole token: a leaf carries the token of ITS sentence and position, not an equal-looking word of another
                return '%s:%s:%s' % (n.cat, n.word, sorted((k, str(v)) for k, v in dict(n.token).items()))
            return '(%s %s %s%s %s)' % (n.cat, n.op_string, n.op_symbol, '' if n.is_unary else ('<' if n.head_is_left else '>'),
                                         ' '.join(t(c) for c in n.children))
        parts.append('%r %s' % (float(r.score), t(r.tree)))
    return ' || '.join(parts)


class Counting(object):
    """picklable wrapper counting callbacks (in-process path only)"""

    def __init__(self, fn):
        self.fn, self.n = fn, 0

    def __call__(self, *a):
        self.n += 1
        return self.fn(*a)


def make_document(rng, kind, nsent, twins=False):
    """-> dict(doc, scores, cats, roots, bin, un, kwargs, expect_fail)"""
    from depccg.types import Token, ScoringResult
    from depccg.cat import Category
    if kind == 'synthetic':
        g = pf.synthetic_grammar(rng, rng.choice('LR'), twins=twins)
        tg = pf.TableGrammar(g['B'], g['U'])
        fb, fu = tg.binary, tg.unary
        lex, roots = g['lex'], g['roots']
    else:
        from depccg.grammar import en, ja
        import functools
        if kind == 'en':
            lex = [Category.parse(s) for s in rng.sample(pf.EN_LEX, 6)]
            table = {Category.parse('N'): [Category.parse('NP')], Category.parse('NP'): [Category.parse('S[X]/(S[X]\\NP)')]}
            fb, fu = en.apply_binary_rules, functools.partial(en.apply_unary_rules, unary_rules=table)
            roots = [Category.parse('S[dcl]'), Category.parse('NP')]
        else:
            lex = [Category.parse(s) for s in rng.sample(pf.JA_LEX, 6)]
            fb, fu = ja.apply_binary_rules, functools.partial(ja.apply_unary_rules, unary_rules={})
            roots = list(ja._possible_root_categories)
    max_length = 5
    doc, scores, expect_fail = [], [], []
    for s in range(nsent):
        n = rng.choice([1, 2, 2, 3, 3, 4, 5])
        if s == 1:
            n = max_length + rng.choice([1, 2])          # too long: must yield its own placeholder only
        # word forms repeat within and across the sentences of a document; what tells two occurrences apart is the rest of the
        # token (lemma = sentence and position, the other attributes at random)
        toks = [Token(word=rng.choice(['the', 'dog', 'saw', 'Apple', 'shares']), lemma='s%dw%d' % (s, i), pos=rng.choice(['NN', 'NNP', 'VBD']),
                      entity=rng.choice(['O', 'I-ORG']), chunk=rng.choice(['B-NP', 'I-NP'])) if rng.random() < 0.8 else Token.of_word('s%dw%d' % (s, i))
                for i in range(n)]
        tag8, dep8 = pf.make_scores(rng, n, len(lex), rng.choice(['ties', 'small', 'wide']))
        doc.append(toks)
        scores.append(ScoringResult(np.array(tag8, dtype=np.float32) / 8, np.array(dep8, dtype=np.float32) / 8))
        expect_fail.append(n > max_length)
    kwargs = dict(unary_penalty=rng.choice([0, 0.125, 0.5]), beta=0.0001, use_beta=rng.random() < 0.5, pruning_size=rng.choice([2, 3, 50]),
                  nbest=rng.choice([1, 1, 2, 3]), max_step=rng.choice([10 ** 7, 10 ** 7, 30]), max_length=max_length)
    return dict(doc=doc, scores=scores, cats=lex, roots=roots, bin=fb, un=fu, kwargs=kwargs, expect_fail=expect_fail, kind=kind)


def call_run(h, D, order, processes, max_chunk):
    doc = [D['doc'][i] for i in order]
    sc = [type(D['scores'][i])(D['scores'][i].tag_scores.copy(), D['scores'][i].dep_scores.copy()) for i in order]
    return h.parsing.run(doc, sc, list(D['cats']), list(D['roots']), D['bin'], D['un'], processes=processes, max_chunk_size=max_chunk, **D['kwargs'])


def chunk_arithmetic_proof():
    """spec/ChunkArith.tla: the slice arithmetic of Batch!Split / parsing.py:_chunks proved for every batch length and process
    count with the TLA+ proof system (the bounded instances are what TLC enumerates).  A failed obligation means the
    specification is wrong (machinery failure); a missing tool is only noted."""
    import shutil
    import subprocess
    import re
    from ..common import SPEC, scratch
    exe = shutil.which('tlapm')
    if not exe:
        return {'module': 'ChunkArith.tla', 'status': 'tlapm not installed: proof not re-checked in this run'}
    d = scratch('tlaps')
    shutil.copy(os.path.join(SPEC, 'ChunkArith.tla'), d)
    try:
        p = subprocess.run([exe, '--toolbox', '0', '0', 'ChunkArith.tla'], cwd=d, stdout=subprocess.PIPE, stderr=subprocess.STDOUT, timeout=900)
    except subprocess.TimeoutExpired:
        return {'module': 'ChunkArith.tla', 'status': 'tlapm did not finish in 900 s: proof not re-checked in this run'}
    out = p.stdout.decode('utf-8', 'replace')
    m = re.search(r'All (\d+) obligations? proved', out)
    if m:
        return {'module': 'ChunkArith.tla', 'theorem': 'ChunkCount (all n >= 1, p >= 1)', 'status': 'proved', 'obligations': int(m.group(1))}
    if re.search(r'obligations? failed', out):
        raise Machinery('ChunkArith.tla: TLAPS could not prove an obligation (specification of the chunk arithmetic is wrong?)\n' + out[-800:])
    return {'module': 'ChunkArith.tla', 'status': 'tlapm gave no verdict: proof not re-checked in this run', 'tail': out[-300:]}


def run(tier):
    t0 = time.time()
    rng = random.Random(seed())
    r = require_clean(run_tlc('MCBatch.tla', 'MCBatch.cfg', workers=NCPU, timeout=900), 'MCBatch')
    if r.violated:
        raise Machinery('Batch.tla: %s violated' % r.violated)
    vecs = [json.loads(s) for s in r.tagged('VEC')]
    if len(vecs) < 100:
        raise Machinery('too few schedules from TLC: %d' % len(vecs))
    cov = {'tlc_runs': [{'cfg': 'MCBatch.cfg', 'distinct': r.distinct, 'generated': r.generated, 'schedules': len(vecs), 'wall_s': round(r.wall, 1)}]}
    cov['tlaps'] = chunk_arithmetic_proof()
    h = substrate.load(hook=False)
    events, metas = [], {}

    def add(ev, meta):
        ev['id'] = len(events) + 1
        events.append(ev)
        metas[ev['id']] = meta
    ndocs = 6 if tier == 'quick' else 30
    n_runs = n_mp = 0
    for d in range(ndocs):
        kind = ['synthetic', 'en', 'ja'][d % 3]
        nsent = 26 if d % 2 == 0 else 8
        D = make_document(rng, kind, nsent, twins=(d % 6 == 0))          # every other synthetic document
        add({'e': 'doc', 'g': d + 1}, {'doc': d, 'kind': kind})
        solos = []
        for i in range(nsent):
            # every search of this check runs in a forked child of a parent process that has never parsed anything, so that a
            # "solo" result really is the result of a process that has seen this sentence only
            try:
                res = run_forked(lambda: [digest(x) for x in call_run(h, D, [i], 1, 1000)], 180)
            except (Hang, Machinery) as e:
                res = ['SOLO RUN FAILED: %s' % str(e)[:150]]
            dg = res[0] if len(res) == 1 else 'WRONG-NUMBER-OF-LISTS'
            solos.append(dg)
            add({'e': 'solo', 'g': d + 1, 'sid': i + 1, 'nlists': len(res), 'digest': dg, 'expect_fail': D['expect_fail'][i]},
                {'doc': d, 'kind': kind, 'sentence': i, 'words': len(D['doc'][i]), 'solo': dg[:300]})
        # schedules from TLC (sentence ids 1..4 mapped onto sentences of this document), then random larger ones
        plans = []
        sample = rng.sample(vecs, 25 if tier == 'quick' else 120)
        for v in sample:
            base = rng.sample(range(nsent), 4)
            plans.append(([base[s - 1] for s in v['batch']], v['procs'], v['maxchunk'], 'tlc'))
        for _ in range(8 if tier == 'quick' else 30):
            k = rng.randint(2, nsent)
            order = rng.sample(range(nsent), k)
            plans.append((order, rng.choice([1, 2, 3, 4]), rng.choice([1, 2, 5, 20, 1000]), 'random'))
        plans.append((list(range(nsent)), 2, 20, 'default-config'))
        # one process, one chunk: sentences after a sentence whose search failed (no parse / step budget), and random orders
        failed_in_search = [i for i in range(nsent) if solos[i].startswith('FAILED') and not D['expect_fail'][i]]
        for f in rng.sample(failed_in_search, min(4, len(failed_in_search))):
            rest = rng.sample([i for i in range(nsent) if i != f], min(3, nsent - 1))
            plans.append(([f] + rest, 1, 1000, 'after-a-failed-search'))
        for _ in range(6 if tier == 'quick' else 20):
            plans.append((rng.sample(range(nsent), rng.randint(2, min(nsent, 6))), 1, 1000, 'one-process'))
        for order, procs, mc, src in plans:
            raised, results = False, []
            try:
                results = run_forked(lambda: [digest(x) for x in call_run(h, D, order, procs, mc)], 180)
            except Hang as e:
                raised = True
                results = ['DID NOT TERMINATE: %s' % e]
            except Machinery as e:
                # an exception raised by the code under test inside the child
                raised = True
                results = [str(e)[:200]]
            n_runs += 1
            n_mp += 1 if len(order) > mc else 0
            add({'e': 'run', 'g': d + 1, 'batch': [i + 1 for i in order], 'procs': procs, 'maxchunk': mc, 'raised': raised, 'results': results},
                {'doc': d, 'kind': kind, 'order': order, 'processes': procs, 'max_chunk_size': mc, 'source': src, 'multiprocess': len(order) > mc,
                 'raised': results[0] if raised else ''})
        # the single-sentence calling form (a bare token list and a bare ScoringResult) is the same function
        for i in rng.sample(range(nsent), 3):
            raised, results = False, []
            try:
                sc = D['scores'][i]
                results = run_forked(lambda: [digest(x) for x in h.parsing.run(D['doc'][i], type(sc)(sc.tag_scores.copy(), sc.dep_scores.copy()), list(D['cats']),
                                                                                list(D['roots']), D['bin'], D['un'], processes=1, max_chunk_size=1000, **D['kwargs'])], 180)
            except (Hang, Machinery) as e:
                raised, results = True, [str(e)[:100]]
            n_runs += 1
            add({'e': 'run', 'g': d + 1, 'batch': [i + 1], 'procs': 1, 'maxchunk': 1000, 'raised': raised, 'results': results},
                {'doc': d, 'kind': kind, 'order': [i], 'processes': 1, 'max_chunk_size': 1000, 'source': 'single-sentence calling form', 'multiprocess': False,
                 'raised': results[0] if raised else ''})
        # shape mismatches must be rejected before any parsing
        from depccg.types import ScoringResult
        bad = []
        sc0 = D['scores'][0]
        bad.append(('tag_columns', [D['doc'][0]], [ScoringResult(np.zeros((len(D['doc'][0]), len(D['cats']) + 1), dtype=np.float32), sc0.dep_scores.copy())], D['cats']))
        bad.append(('dep_shape', [D['doc'][0]], [ScoringResult(sc0.tag_scores.copy(), np.zeros((len(D['doc'][0]), len(D['doc'][0])), dtype=np.float32))], D['cats']))
        bad.append(('tag_rows', [D['doc'][0]], [ScoringResult(np.zeros((len(D['doc'][0]) + 1, len(D['cats'])), dtype=np.float32), sc0.dep_scores.copy())], D['cats']))
        bad.append(('fewer_scores_than_sentences', [D['doc'][0], D['doc'][2]], [sc0], D['cats']))
        bad.append(('more_scores_than_sentences', [D['doc'][0], D['doc'][2]], [sc0, D['scores'][2], D['scores'][1]], D['cats']))
        bad.append(('one_sentence_two_scores', [D['doc'][0]], [sc0, type(sc0)(sc0.tag_scores.copy(), sc0.dep_scores.copy())], D['cats']))
        bad.append(('shorter_category_list', [D['doc'][0]], [sc0], D['cats'][:-1]))
        bad.append(('second_sentence_bad', [D['doc'][0], D['doc'][2]], [sc0, ScoringResult(np.zeros((1, len(D['cats'])), dtype=np.float32), np.zeros((1, 2), dtype=np.float32))] if len(D['doc'][2]) != 1 else [sc0, ScoringResult(np.zeros((2, len(D['cats'])), dtype=np.float32), np.zeros((2, 3), dtype=np.float32))], D['cats']))
        for name, doc, sc, cats in bad:
            cb, cu = Counting(D['bin']), Counting(D['un'])
            raised = False
            try:
                h.parsing.run(doc, sc, list(cats), list(D['roots']), cb, cu, processes=1, max_chunk_size=1000, **D['kwargs'])
            except Exception:
                raised = True
            add({'e': 'shape', 'g': d + 1, 'raised': raised, 'callbacks': cb.n + cu.n}, {'doc': d, 'kind': kind, 'mismatch': name, 'raised': raised, 'callbacks': cb.n + cu.n})
        ok_raised = False
        try:
            run_forked(lambda: len(h.parsing.run([D['doc'][0]], [sc0], list(D['cats']), list(D['roots']), D['bin'], D['un'], processes=1, max_chunk_size=1000, **D['kwargs'])), 180)
        except (Hang, Machinery):
            ok_raised = True
        add({'e': 'shape_ok', 'g': d + 1, 'raised': ok_raised}, {'doc': d, 'kind': kind})
    rejects, stats = validate('traces/BatchTrace.tla', events, 'c11', per_shard=200, group='g')
    from ..trace import binding_demo

    def swap_results(e):
        if e['e'] == 'run' and not e['raised'] and len(set(e['results'])) > 1:
            e['results'] = e['results'][1:] + e['results'][:1]
            return e
    demo = binding_demo('traces/BatchTrace.tla', events, [('results_rotated', swap_results)], 'c11', group='g', limit=3)
    viols = []
    for (i, clause) in rejects:
        m = metas[i]
        viols.append(Violation(PROP, clause, json.dumps({k: m[k] for k in m if k in ('kind', 'order', 'processes', 'max_chunk_size', 'mismatch', 'sentence')}), m))
    cov.update({
        'states': r.distinct + stats.states, 'transitions': r.generated + stats.transitions, 'binding_demonstration': demo, 'traces_validated_against_impl': len(events),
        'events': {'documents': ndocs, 'batch_runs': n_runs, 'of_which_through_the_process_pool': n_mp,
                   'solo_runs': sum(1 for e in events if e['e'] == 'solo'), 'shape_mismatch_cases': sum(1 for e in events if e['e'] == 'shape'),
                   'placeholders_in_solo_runs': sum(1 for e in events if e['e'] == 'solo' and e['digest'] == 'FAILED')},
        'samples': [metas[i] for i in (2, 30, len(events) - 8, len(events) - 3)],
        'checker_cmd': stats.cmds[0] if stats.cmds else '',
        'rule': 'every batch schedule of Batch.tla (all permutations of subsets of 4 sentences x 1..3 processes x chunk sizes) is a candidate, a sample is replayed on each document, plus random larger batches through the real multiprocessing.Pool',
    })
    return conclude(PROP, tier, viols, cov, t0, [
        'results are compared as text digests (exact float repr of scores, full trees with labels and head flags)',
        'time.sleep(1) polling of depccg.parsing is shortened by replacing the module attribute `time` (harness-side)',
        'callback counting for the shape clause uses the in-process path',
    ])
