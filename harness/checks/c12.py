"""C12 - rule labels and head directions on trees are those the grammar assigned.
(a) parser trees: AStar.tla / ParserTrace.tla (clause label_not_of_creating_result);
(b) treebank readers: grammar-licensed trees (and trees with one underivable node) are printed by the real encoders and
read by the real readers (read_auto, read_xml, read_jigg_xml, read_ptb, Tree.of_nltk_tree); every binary node must carry
the label of a rule deriving its category (head direction too where the format has no head field), underivable nodes 'unk'."""
import random
import time

from ..common import Violation, conclude, seed
from ..trace import validate
from .. import parser_family as pf
from .. import trees, render_family as rf, substrate, enc
from . import parser_models as pm

PROP = 'C12'


class FakeNltk(object):
    """minimal stand-in exposing what Tree.of_nltk_tree uses: label(), indexing, iteration"""

    def __init__(self, label, kids):
        self._label, self._kids = label, kids

    def label(self):
        return self._label

    def __getitem__(self, i):
        return self._kids[i]

    def __iter__(self):
        return iter(self._kids)

    def __len__(self):
        return len(self._kids)


def to_fake(t):
    lab = enc.show_cat(t['cat'])
    if t['k'] == 'L':
        return FakeNltk(lab, [t['tok']['word']])
    return FakeNltk(lab, [to_fake(k) for k in t['kids']])


def spoil(t, rng, catpool):
    """make one binary node underivable by replacing its category"""
    nodes = []

    def rec(n):
        if n['k'] == 'B':
            nodes.append(n)
        for k in n['kids']:
            rec(k)
    rec(t)
    if nodes:
        rng.choice(nodes)['cat'] = rng.choice(catpool)


def reader_part(tier, events, metas):
    rng = random.Random(seed() + 12)
    substrate.load(hook=False)
    from depccg.tools.reader import read_auto, read_xml, read_jigg_xml, read_ptb
    from depccg.tree import Tree

    def add(ev, meta):
        ev['id'] = len(events) + 1
        events.append(ev)
        metas[ev['id']] = meta
    n = 120 if tier == 'quick' else 2000
    for it in range(n):
        lang = 'en' if it % 3 else 'ja'
        rf.set_lang(lang)
        # every fifth batch is over the feature-less categories both grammars combine: the same (parent, left, right) triples are
        # then read under English and under Japanese in one process, in alternation
        b = trees.make_batch(rng, lang, awkward=0.2, exclude='\\()', licensed_p=0.9, lexicon=trees.SHARED_LEXICON if it % 5 == 2 else None)
        if it % 10 == 7:
            b = trees.twin_batch(rng, lang) or b
        if it % 4 == 0:
            pool = [enc.parse_text(s) for s in (trees.EN_LEXICON if lang == 'en' else trees.JA_LEXICON)]
            for sent in b:
                for t in sent:
                    spoil(t, rng, pool)
        base = {'lang': lang, 'words': [[t['tok']['word'] for t in trees.leaves_of(s[0])] for s in b]}
        for fmt, reader, suffix in (('auto', read_auto, '.auto'), ('xml', read_xml, '.xml'), ('jigg_xml', read_jigg_xml, '.jigg.xml'), ('ptb', read_ptb, '.ptb')):
            if fmt == 'xml' and lang != 'en':
                continue            # C&C XML carries the English token attributes only
            if fmt == 'jigg_xml' and lang != 'ja':
                continue            # the Jigg spelling of English features (NP[nb=true]) is not re-read as the same category; C15 claims the Japanese round trip
            rf.read_back(PROP, fmt, lang, trees.real_batch(b, rng), add, base, reader=reader, suffix=suffix)
        # Tree.of_nltk_tree with a stand-in tree object
        for sent in b:
            for t in sent:
                d = rf.with_gr(trees.proj_real(trees.build_real(t)), lang)
                try:
                    r = rf.proj_read(Tree.of_nltk_tree(to_fake(t)))
                except Exception as e:
                    add({'e': 'reader_raised', 'p': PROP, 'fmt': 'nltk'}, dict(base, fmt='nltk', reader_raised=repr(e)[:200]))
                    continue
                add({'e': 'read', 'p': PROP, 'fmt': 'nltk', 'd': d, 'r': r}, dict(base, fmt='nltk'))


def run(tier):
    viols, cov, t0 = pf.run_family(PROP, tier)
    cov = pm.add_model_runs(PROP, tier, cov)
    events, metas = [], {}
    reader_part(tier, events, metas)
    rejects, stats = validate('traces/RenderTrace.tla', events, 'c12b', per_shard=400)
    derivable = underivable = 0
    for e in events:
        if e['e'] == 'read':
            def cnt(n):
                global_counts = [0, 0]
                return global_counts
    for (i, clause) in rejects:
        if clause.startswith(PROP + '.'):
            m = metas[i]
            viols.append(Violation(PROP, clause, (m.get('fmt', '') + ' ' + str(m.get('words')))[:300], m))
    cov['states'] += stats.states
    cov['transitions'] += stats.transitions
    cov['traces_validated_against_impl'] += len(events)
    kinds = {}
    for e in events:
        k = e['e'] + ':' + e.get('fmt', '')
        kinds[k] = kinds.get(k, 0) + 1
    cov['reader_events'] = kinds
    cov['binding_demonstration_readers'] = rf.render_binding_demo(events, 'c12b')
    return conclude(PROP, tier, viols, cov, t0, pf.ASSUMPTIONS + [
        'readers: when several rules derive the node category any of their labels is accepted; formats with a head field (auto) keep the head from the file',
        'Tree.of_nltk_tree is fed a minimal stand-in object exposing label() and indexing (nltk is not installed)',
        'reader_raised events of other formats are judged by the round-trip properties (C08 C15 C20), not here',
    ])
