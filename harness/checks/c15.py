"""C15 - XML formats round-trip and give ccg2lambda a complete derivation.
Spec: Formats.tla (JiggIntegrity, JBuild/JEq/JTiles, ReadFails); binding: real xml_of -> read_xml, real to_jigg_xml ->
read_jigg_xml, real build_ccg_tree / normalize_tokens on the Jigg XML handed to ccg2lambda (captured at the
ccg2lambda.parse boundary inside to_string), judged by traces/RenderTrace.tla."""
import random
import time

from ..common import Violation, conclude, seed
from ..trace import validate
from .. import trees, lexers, substrate, render_family as rf

PROP = 'C15'


def built_node(el):
    """nested <span> elements produced by build_ccg_tree -> the node shape of Formats!JBuild (pure attribute copy)"""
    a = el.attrib
    kids = [built_node(c) for c in el if c.tag == 'span']
    def num(x):
        try:
            return int(x)
        except (TypeError, ValueError):
            return -1
    return {'ok': True, 'k': 'L' if a.get('terminal') else 'T', 'cat': a.get('category', ''), 'rule': a.get('rule', ''), 'hasrule': 'rule' in a,
            'b': num(a.get('begin')), 'e': num(a.get('end')), 'term': a.get('terminal', ''), 'kids': kids}


def run(tier):
    t0 = time.time()
    rng = random.Random(seed())
    substrate.load(hook=False)
    from depccg.tools.reader import read_xml, read_jigg_xml
    from depccg.semantics.ccg2lambda import ccg2lambda_tools as T
    import depccg.printer as P
    events, metas = [], {}

    def add(ev, meta):
        ev['id'] = len(events) + 1
        events.append(ev)
        metas[ev['id']] = meta
    n = 150 if tier == 'quick' else 2500
    captured = []

    class Capture(object):
        @staticmethod
        def parse(jigg_xml, templates, ncores=1):
            captured.append(jigg_xml)
            raise RuntimeError('ccg2lambda boundary reached (semantic parser not available here)')
    orig = P.ccg2lambda
    P.ccg2lambda = Capture
    try:
        for it in range(n):
            # ---- (a) C&C XML over the English lexicon
            rf.set_lang('en')
            b = trees.make_batch(rng, 'en', awkward=0.4, sparse=it % 3 == 2)
            if it % 8 == 5:
                # one file in which the same pair of children occurs under different rules / parent categories
                b = trees.twin_batch(rng, 'en') or b
            if it % 4 == 1:
                # C&C XML has no bookkeeping attribute called id: a token annotation of that name (a CoNLL id) must survive
                for sent in b:
                    ids = ['t%d' % rng.randrange(9) if rng.random() < 0.5 else None for _ in trees.leaves_of(sent[0])]
                    for t in sent:
                        for lf, v in zip(trees.leaves_of(t), ids):
                            if v is not None:
                                lf['tok']['id'] = v
            base = {'lang': 'en', 'words': [[t['tok']['word'] for t in trees.leaves_of(s[0])] for s in b]}
            real = trees.real_batch(b, rng)
            rf.render_events(PROP, 'xml', 'en', b, real, add, base)
            rf.read_back(PROP, 'xml', 'en', trees.real_batch(b, rng), add, base, reader=read_xml, suffix='.xml')
            # ---- (b)(c)(d) Jigg XML, both languages for integrity / ccg2lambda, Japanese for the reader round trip
            for lang in ('ja', 'en'):
                rf.set_lang(lang)
                b = trees.make_batch(rng, lang, awkward=0.4)
                base = {'lang': lang, 'words': [[t['tok']['word'] for t in trees.leaves_of(s[0])] for s in b]}
                rf.render_events(PROP, 'jigg_xml', lang, b, trees.real_batch(b, rng), add, base)
                if lang == 'ja':
                    rf.read_back(PROP, 'jigg_xml', lang, trees.real_batch(b, rng), add, base, reader=read_jigg_xml, suffix='.jigg.xml')
                # what ccg2lambda receives
                real = trees.real_batch(b, rng)
                projs = [[trees.proj_real(st.tree) for st in sent] for sent in real]
                del captured[:]
                try:
                    P.to_string(real, format='ccg2lambda')
                except Exception:
                    pass
                if not captured:
                    add({'e': 'raised', 'p': PROP, 'fmt': 'ccg2lambda_input'}, dict(base, fmt='ccg2lambda_input'))
                    continue
                root = captured[0]
                try:
                    doc = lexers.lex_jigg(root)
                except lexers.LexError as e:
                    add({'e': 'unreadable', 'p': PROP, 'fmt': 'ccg2lambda_input'}, dict(base, fmt='ccg2lambda_input', lexerr=str(e)))
                    continue
                sents = root.xpath('/root/document/sentences/sentence')
                for sent_d, sent_el, sent_doc in zip(projs, sents, doc):
                    ccgs = sent_el.xpath('./ccg')
                    for d, ccg_el in zip(sent_d, ccgs):
                        meta = dict(base, fmt='ccg2lambda_input')
                        try:
                            bt = T.build_ccg_tree(ccg_el)
                            x = built_node(bt)
                        except Exception as e:
                            add({'e': 'reader_raised', 'p': PROP, 'fmt': 'build_ccg_tree'}, dict(meta, reader_raised=repr(e)[:200]))
                            continue
                        add({'e': 'built', 'p': PROP, 'd': d, 'x': x, 'toks': sent_doc['tokens'], 'usesym': lang == 'ja'}, meta)
                    # token normalisation on a copy of the token elements
                    import copy
                    toks = [copy.deepcopy(t) for t in sent_el.xpath('./tokens/token')]
                    try:
                        T.normalize_tokens(toks)
                        for t_el in toks:
                            for key in ('surf', 'base'):
                                if key in t_el.attrib:
                                    add({'e': 'normalized', 'p': PROP, 'after': [ord(c) for c in t_el.get(key)]}, dict(base, fmt='normalize_tokens', text=t_el.get(key)))
                    except Exception as e:
                        add({'e': 'reader_raised', 'p': PROP, 'fmt': 'normalize_tokens'}, dict(base, reader_raised=repr(e)[:200]))
    finally:
        P.ccg2lambda = orig
    rejects, stats = validate('traces/RenderTrace.tla', events, 'c15', per_shard=400)
    demo = rf.render_binding_demo(events, 'c15')
    viols = []
    for (i, clause) in rejects:
        if clause.startswith(PROP + '.'):
            m = metas[i]
            viols.append(Violation(PROP, clause, str(m.get('words'))[:300], m))
    kinds = {}
    for e in events:
        k = e['e'] + ':' + e.get('fmt', '')
        kinds[k] = kinds.get(k, 0) + 1
    cov = {'states': stats.states, 'transitions': stats.transitions, 'binding_demonstration': demo, 'traces_validated_against_impl': len(events),
           'events': {'iterations': n, 'by_kind': kinds},
           'samples': [{k: metas[i][k] for k in metas[i] if k in ('lang', 'fmt', 'words', 'text')} for i in (1, len(events) // 2, len(events))],
           'checker_cmd': stats.cmds[0] if stats.cmds else '',
           'rule': 'random batches (1-3 sentences x 1-3 best) of grammar-licensed and arbitrary trees; tokens over XML-representable awkward text'}
    return conclude(PROP, tier, viols, cov, t0, [
        'ccg2lambda.parse itself (nltk) cannot run here: the Jigg XML is captured where to_string hands it over, and build_ccg_tree / normalize_tokens are run on it',
        'rule labels of binary nodes after read_xml are judged as in C12 (a rule deriving the category; unknown when underivable); unary labels must be the ones in the file',
        'the template vocabularies are label strings for English and rule symbols for Japanese',
    ])
