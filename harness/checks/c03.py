"""C03 - English combinatory rules are sound (and complete on identical parts).
Spec: GrammarEn.tla (laws in MCGrammarEn), binding: traces/RulesTrace.tla."""
import json
import os
import random
import time

from ..common import NCPU, REPO, Machinery, Violation, conclude, seed
from ..tlc import run_tlc, require_clean
from ..trace import validate
from .. import enc, gen, inventory, rules

PROP = 'C03'


def model(cfg, timeout=900):
    r = require_clean(run_tlc('MCGrammarEn.tla', cfg, workers=NCPU, timeout=timeout), cfg)
    if r.violated:
        raise Machinery('%s: %s violated (specification inconsistent)\n%s' % (cfg, r.violated, r.out[-1500:]))
    return r


def run(tier):
    t0 = time.time()
    rng = random.Random(seed())
    cov = {'tlc_runs': []}
    states = trans = 0
    pairs, srcs = [], []
    cfgs = ['MCGrammarEn_wide1.cfg', 'MCGrammarEn_tiny2.cfg'] + (['MCGrammarEn_mid2.cfg'] if tier == 'thorough' else [])
    n_must = 0
    for cfg in cfgs:
        r = model(cfg)
        states += r.distinct
        trans += r.generated
        vecs = [json.loads(s) for s in r.tagged('VEC')]
        cov['tlc_runs'].append({'cfg': cfg, 'distinct': r.distinct, 'vectors': len(vecs), 'wall_s': round(r.wall, 1)})
        for v in vecs:
            pairs.append((v['x'], v['y']))
            srcs.append('tlc:' + cfg)
            n_must += 1 if v['must'] else 0
    n_tlc = len(pairs)
    if n_tlc < 10000:
        raise Machinery('too few TLC vectors: %d' % n_tlc)
    # ---- shipped inventories
    tg = [enc.parse_text(s) for s in inventory.targets('en')]
    rb = [enc.parse_text(s) for s in inventory.targets('en_rebank')]
    with open(os.path.join(REPO, 'tests', 'grammar', 'rules.txt'), encoding='utf-8') as f:
        for ln in f:
            a, b, _ = ln.split()
            pairs.append((enc.parse_text(a), enc.parse_text(b)))
            srcs.append('tests/grammar/rules.txt')
    for a, b in inventory.seen_rules('en') + inventory.seen_rules('en_rebank'):
        pairs.append((enc.parse_text(a), enc.parse_text(b)))
        srcs.append('seen_rules')
    # shared part b = a functor of 3-5 atoms, the two occurrences differing in one atom's feature (any position) or in nothing
    for x, y, note in gen.deep_pairs(rng, 'en', 4000 if tier == 'quick' else 40000):
        pairs.append((x, y))
        srcs.append('deep-shared-part: ' + note)
    if tier == 'quick':
        for _ in range(30000):
            inv = tg if rng.random() < 0.6 else rb
            pairs.append((rng.choice(inv), rng.choice(inv)))
            srcs.append('inventory-sample')
    else:
        for inv, nm in ((tg, 'targets.en'), (rb, 'targets.en_rebank')):
            for x in inv:
                for y in inv:
                    pairs.append((x, y))
                    srcs.append(nm)
    events, metas = rules.bin_events(pairs, 'en', 'c03')
    for i, s in enumerate(srcs):
        metas[i + 1]['src'] = s
    # ---- closure: results fed back as inputs (one round quick, two rounds thorough)
    n_closure = 0
    rounds = 1 if tier == 'quick' else 2
    evs = events
    for rd in range(rounds):
        pool = rules.closure_pairs(evs, rng, 0)
        cap = 20000 if tier == 'quick' else 150000
        cp = []
        for _ in range(cap):
            a = rng.choice(pool)
            b = rng.choice(pool) if rng.random() < 0.5 else rng.choice(tg)
            cp.append((a, b) if rng.random() < 0.5 else (b, a))
        evs, ms = rules.bin_events(cp, 'en', 'c03c', start_id=len(events))
        for k in ms:
            ms[k]['src'] = 'closure-%d' % (rd + 1)
        events += evs
        metas.update(ms)
        n_closure += len(cp)
    rejects, stats = validate('traces/RulesTrace.tla', events, 'c03', per_shard=15000, env={'AUX_FILE': rules.aux_file()})
    from ..trace import binding_demo

    def flip_head(e):
        if e['e'] == 'bin' and e['res']:
            e['res'][0]['hl'] = not e['res'][0]['hl']
            return e

    def wrong_cat(e):
        if e['e'] == 'bin' and e['res'] and e['res'][0]['c']['k'] == 'F':
            e['res'][0]['c'] = e['res'][0]['c']['l']
            return e
    demo = binding_demo('traces/RulesTrace.tla', events, [('head_flag_flipped', flip_head), ('result_replaced_by_its_left_part', wrong_cat)], 'c03', env={'AUX_FILE': rules.aux_file()})
    viols = []
    for (i, clause) in rejects:
        if not clause.startswith('C03.'):
            continue
        m = metas[i]
        viols.append(Violation(PROP, clause, '%s  %s' % (m['x'], m['y']), m))
    by_label = {}
    for e in events:
        for r in e['res']:
            by_label[r['op']] = by_label.get(r['op'], 0) + 1
    cov.update({
        'states': states + stats.states,
        'transitions': trans + stats.transitions,
        'traces_validated_against_impl': len(events),
        'binding_demonstration': demo,
        'exhaustive': tier == 'thorough',
        'events': {'tlc_vectors_replayed': n_tlc, 'tlc_vectors_with_required_results': n_must, 'inventory_and_test_pairs': len(pairs) - n_tlc,
                   'closure_pairs': n_closure, 'results_by_label': by_label,
                   'events_with_results': sum(1 for e in events if e['res'])},
        'samples': [metas[i] for i in (1, n_tlc // 3, n_tlc + 1, n_tlc + 800, len(events))],
        'checker_cmd': stats.cmds[0] if stats.cmds else '',
        'rule': 'all pairs of the MCGrammarEn universes (TLC) + test triples + seen rules + inventory pairs (sampled in quick, all in thorough) + closure rounds',
    })
    for lab in ('fa', 'ba', 'fc', 'bx', 'gfc', 'gbx', 'conj', 'lp', 'rp'):
        if not by_label.get(lab):
            raise Machinery('vacuity: no result labelled %s was observed' % lab)
    return conclude(PROP, tier, viols, cov, t0, [
        "'nb' is erased from both inputs before the clauses are evaluated (statement: results do not depend on nb)",
        'bx/gbx over N, NP: the composed-over category is the argument of the backward functor as given (after nb erasure); when only the forward functor states a bare N/NP the outcome is unspecified',
        'conj with an NP\\NP-shaped right conjunct: both outcomes justified, neither required',
        'punctuation = atom whose base does not start with a letter, or LRB RRB LQU RQU (decided by the harness on code points)',
    ])
