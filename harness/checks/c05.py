"""C05 - category text <-> value round trip.  Spec: CatReader.tla (state machine, exhaustive),
binding: TLC vectors replayed into Category.parse/str, inventories and random decorated texts
validated by traces/CatTrace.tla."""
import json
import random
import time

from ..common import NCPU, Machinery, Violation, conclude, seed
from ..tlc import run_tlc, require_clean
from ..trace import validate, TraceStats
from .. import enc, gen, inventory

PROP = 'C05'


def model_run(cfg, timeout):
    r = require_clean(run_tlc('MCCatReader.tla', cfg, workers=NCPU, timeout=timeout), cfg)
    if r.violated:
        raise Machinery('CatReader model: invariant %s violated in %s (specification inconsistent)\n%s' % (r.violated, cfg, r.out[-1500:]))
    return r


def drive_rt(eid, kind, v, toks, rng, src=''):
    from depccg.cat import Category
    text = enc.toks_text(toks, rng)
    ev = {'e': 'rt', 'id': eid, 'kind': kind, 'v': v if v is not None else enc.DUMMY, 'toks': toks,
          'ok': False, 'res': enc.DUMMY, 'ptoks': [], 'pblank': False, 'rok': False, 'rres': enc.DUMMY}
    meta = {'text': text, 'src': src}
    try:
        c = Category.parse(text)
        ev['ok'] = True
    except Exception as e:  # "rejected" = any exception
        meta['raised'] = repr(e)[:200]
        return ev, meta
    try:
        ev['res'] = enc.enc_cat(c)
    except (TypeError, AttributeError):
        # the reader returned an object that is not a category value: the text was accepted (ok stays True), the value is wrong
        try:
            meta['non_category_result'] = repr(c)[:100]
        except Exception:
            meta['non_category_result'] = 'an object of type %s that cannot even be printed' % type(c).__name__
        return ev, meta
    ptext = str(c)
    meta['printed'] = ptext
    ev['ptoks'], ev['pblank'] = enc.lex_cat(ptext)
    try:
        ev['rres'] = enc.enc_cat(Category.parse(ptext))
        ev['rok'] = True
    except Exception as e:
        meta['reparse_raised'] = repr(e)[:200]
    return ev, meta


def drive_pv(eid, v):
    from depccg.cat import Category
    c = enc.dec_cat(v)
    ptext = str(c)
    ev = {'e': 'pv', 'id': eid, 'v': v, 'ptoks': [], 'pblank': False, 'rok': False, 'rres': enc.DUMMY}
    ev['ptoks'], ev['pblank'] = enc.lex_cat(ptext)
    meta = {'text': ptext, 'src': 'constructed'}
    try:
        ev['rres'] = enc.enc_cat(Category.parse(ptext))
        ev['rok'] = True
    except Exception as e:
        meta['reparse_raised'] = repr(e)[:200]
    return ev, meta


def run(tier):
    t0 = time.time()
    rng = random.Random(seed())
    cov = {'tlc_runs': []}
    states = trans = 0
    # ---- 1. the reader machine, exhaustively
    cfgs = ['MCCatReader_quick.cfg'] + (['MCCatReader_thorough.cfg'] if tier == 'thorough' else [])
    for cfg in cfgs:
        r = model_run(cfg, 1500)
        states += r.distinct
        trans += r.generated
        cov['tlc_runs'].append({'cfg': cfg, 'distinct': r.distinct, 'generated': r.generated, 'wall_s': round(r.wall, 1)})
    # ---- 2. spec -> code: every initial state of the emit universe is a test vector
    r = model_run('MCCatReader_emit.cfg', 900)
    states += r.distinct
    trans += r.generated
    vecs = [json.loads(s) for s in r.tagged('VEC')]
    if len(vecs) < 1000:
        raise Machinery('too few vectors emitted by TLC: %d' % len(vecs))
    cov['tlc_runs'].append({'cfg': 'MCCatReader_emit.cfg', 'distinct': r.distinct, 'vectors': len(vecs), 'wall_s': round(r.wall, 1)})
    events, metas = [], {}

    def add(pair):
        ev, meta = pair
        events.append(ev)
        metas[ev['id']] = meta
    eid = 0
    for vec in vecs:
        eid += 1
        add(drive_rt(eid, vec['kind'], vec['v'], vec['toks'], rng, 'tlc'))
    n_tlc = len(vecs)
    # ---- 3. shipped category strings
    inv = inventory.distinct_strings()
    for src, s in inv:
        eid += 1
        toks, _ = enc.lex_cat(s)
        add(drive_rt(eid, 'inv', None, toks, None, src))
        metas[eid]['text'] = s
    # ---- 4. random decorated / flattened texts of random values (depth <= 4, both feature systems)
    n_rand = 20000 if tier == 'quick' else 200000
    n_flat = 0
    for i in range(n_rand):
        system = 'en' if i % 2 == 0 else 'ja'
        v = gen.rand_cat(rng, rng.choice([1, 2, 3, 3, 4]), system, feats=gen.EN_FEATS_WIDE)
        eid += 1
        if i % 5 == 4:
            ft = gen.flat_toks(v, rng)
            if ft is not None:
                n_flat += 1
                # sometimes inside redundant bracket pairs around the whole text (the ambiguity is then inside a bracket)
                for _ in range(rng.choice([0, 0, 1, 1, 2])):
                    o, c_ = rng.choice([('(', ')'), ('<', '>')])
                    ft = [gen.T(o)] + ft + [gen.T(c_)]
                add(drive_rt(eid, 'flat', v, ft, rng, 'random'))
                continue
        add(drive_rt(eid, 'deco', v, gen.deco_toks(v, rng), rng, 'random'))
    # ---- 5. values built by constructors
    n_pv = 5000 if tier == 'quick' else 50000
    for i in range(n_pv):
        eid += 1
        add(drive_pv(eid, gen.rand_cat(rng, rng.choice([0, 1, 2, 3]), 'en' if i % 2 else 'ja', feats=gen.EN_FEATS_WIDE)))
    stats = TraceStats()
    rejects, stats = validate('traces/CatTrace.tla', events, 'c05', per_shard=15000, stats=stats)
    from ..trace import binding_demo

    def flip_res(e):
        if e['e'] == 'rt' and e['ok'] and e['kind'] == 'deco' and e['res']['k'] == 'F':
            e['res'] = e['res']['l']
            return e

    def drop_ptok(e):
        if e['e'] == 'pv' and len(e['ptoks']) > 1:
            e['ptoks'] = e['ptoks'][:-1]
            return e
    demo = binding_demo('traces/CatTrace.tla', events, [('parsed_value_replaced_by_its_left_part', flip_res), ('printed_token_dropped', drop_ptok)], 'c05')
    viols = []
    for (i, clause) in rejects:
        m = metas[i]
        viols.append(Violation(PROP, clause, m['text'], m))
    distinct_texts = len({m['text'] for m in metas.values()})
    cov.update({
        'states': states + stats.states,
        'transitions': trans + stats.transitions,
        'traces_validated_against_impl': len(events),
        'exhaustive': True,
        'events': {'tlc_vectors_replayed': n_tlc, 'shipped_strings': len(inv), 'random_texts': n_rand, 'of_which_flattened': n_flat,
                   'constructed_values': n_pv},
        'distinct_texts': distinct_texts,
        'binding_demonstration': demo,
        'samples': [dict(metas[e['id']], kind=e.get('kind', 'pv'), accepted=e.get('ok', e.get('rok'))) for e in
                    (events[0], events[n_tlc // 2], events[n_tlc + 5], events[n_tlc + len(inv) + 4], events[-1])],
        'checker_cmd': stats.cmds[0] if stats.cmds else '',
        'rule': 'TLC enumerates all values of the emit universe with all decorations (exhaustive); shipped strings are all distinct strings of the model files; random texts are decorated/flattened texts of random values',
    })
    return conclude(PROP, tier, viols, cov, t0, [
        'category values are compared on their projection (base, feature fields, slash, left, right) taken from the real objects',
        'feature text is structured by the harness lexer with the "=/," rule of the statement',
        '"rejected" means any exception from Category.parse',
        'the reference reader of CatReaderOps.tla is written from the statement; its own laws are model-checked on the bounded universe',
    ])
