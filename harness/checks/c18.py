"""C18 - printing is an observation: it changes nothing and is repeatable.
Spec: PrintHistory.tla (Render leaves objs unchanged; all format sequences of length 3 enumerated by TLC);
binding: each sequence replayed on one persistent result object, snapshots and outputs judged by traces/PrintTrace.tla."""
import copy
import json
import random
import time

from ..common import NCPU, Machinery, Violation, conclude, seed, sha
from ..tlc import run_tlc, require_clean
from ..trace import validate
from .. import trees, substrate, render_family as rf

PROP = 'C18'


def snapshot(real):
    return [[{'score': float(st.score), 'tree': trees.proj_real(st.tree)} for st in sent] for sent in real]


def render(P, real, fmt, captured):
    """-> (raised, output text) ; the ccg2lambda format is observed up to the Jigg XML handed to the semantic parser"""
    from lxml import etree
    del captured[:]
    try:
        out = P.to_string(real, format=fmt)
        return False, out
    except Exception as e:
        if fmt == 'ccg2lambda' and captured:
            return False, etree.tostring(captured[0], encoding='unicode')
        return True, repr(e)[:200]


def run(tier):
    t0 = time.time()
    rng = random.Random(seed())
    r = require_clean(run_tlc('PrintHistory.tla', 'PrintHistory.cfg', workers=NCPU, timeout=600), 'PrintHistory')
    if r.violated:
        raise Machinery('PrintHistory: %s violated' % r.violated)
    seqs = [json.loads(s) for s in r.tagged('VEC')]
    if len(seqs) < 1000:
        raise Machinery('too few format sequences from TLC: %d' % len(seqs))
    cov = {'tlc_runs': [{'cfg': 'PrintHistory.cfg', 'distinct': r.distinct, 'generated': r.generated, 'sequences': len(seqs), 'wall_s': round(r.wall, 1)}]}
    substrate.load(hook=False)
    import depccg.printer as P
    captured = []

    class Capture(object):
        @staticmethod
        def parse(jigg_xml, templates, ncores=1):
            captured.append(copy.deepcopy(jigg_xml))
            raise RuntimeError('ccg2lambda boundary')
    orig = P.ccg2lambda
    P.ccg2lambda = Capture
    events, metas = [], {}

    def add(ev, meta):
        ev['id'] = len(events) + 1
        events.append(ev)
        metas[ev['id']] = meta
    use = seqs if tier == 'thorough' else rng.sample(seqs, 500)
    # longer random histories too
    for _ in range(60 if tier == 'quick' else 600):
        use.append([rng.choice(seqs)[0] for _ in range(rng.randint(4, 8))])
    g = 0
    try:
        for seq in use:
            lang = 'ja' if 'ja' in seq or rng.random() < 0.3 else 'en'
            rf.set_lang(lang)
            b = trees.make_batch(rng, lang, awkward=0.3, licensed_p=0.8, sparse=rng.random() < 0.5)
            if rng.random() < 0.3:
                # tokens are free-form: a caller's token may carry attributes under names a layout uses for its own bookkeeping
                # (rendering need not carry them, but must still neither depend on history nor change the caller's objects)
                for sent in b:
                    n = len(trees.leaves_of(sent[0]))
                    extra = {i: {k: rng.choice(['NP', 'x', '0', 's9_9']) for k in rng.sample(['cat', 'id', 'start', 'span', 'surf', 'base', 'terminal'], rng.randint(1, 2))}
                             for i in range(n) if rng.random() < 0.5}
                    for t in sent:
                        for i, x in enumerate(trees.leaves_of(t)):
                            x['tok'].update(extra.get(i, {}))
            if rng.random() < 0.25:
                # trees as the bank readers build them: the rule name of a node is its symbol ('<B1', '>', '<Φ>' ...), i.e. text
                # with characters that mean something to the XML / HTML layouts
                def sym_as_name(t):
                    if t['k'] != 'L':
                        t['lab'] = t['sym'] if rng.random() < 0.8 else rng.choice(['a&b', '<x>', '"q"'])
                        for k in t['kids']:
                            sym_as_name(k)
                for sent in b:
                    for t in sent:
                        sym_as_name(t)
            fresh = {}
            for f in set(seq):
                fresh[f] = render(P, trees.real_batch(b, random.Random(7)), f, captured)
            real = trees.real_batch(b, random.Random(7))           # the one persistent result object
            g += 1
            snap = snapshot(real)
            add({'e': 'begin', 'g': g, 'snap': snap}, {'lang': lang, 'sequence': seq})
            for f in seq:
                raised, out = render(P, real, f, captured)
                after = snapshot(real)
                add({'e': 'render', 'g': g, 'fmt': f, 'snap_after': after, 'raised': raised, 'out': sha(out), 'fresh_raised': fresh[f][0], 'fresh': sha(fresh[f][1])},
                    {'lang': lang, 'sequence': seq, 'fmt': f, 'raised': out if raised else '', 'fresh_raised': fresh[f][1] if fresh[f][0] else ''})
    finally:
        P.ccg2lambda = orig
    rejects, stats = validate('traces/PrintTrace.tla', events, 'c18', per_shard=150, group='g')
    from ..trace import binding_demo

    def change_out(e):
        if e['e'] == 'render' and not e['fresh_raised']:
            e['out'] = 'x' + e['out']
            return e

    def change_snap(e):
        if e['e'] == 'render':
            e['snap_after'] = e['snap_after'] + [[]]
            return e
    demo = binding_demo('traces/PrintTrace.tla', events, [('output_digest_changed', change_out), ('snapshot_changed', change_snap)], 'c18', group='g', limit=3)
    viols = []
    for (i, clause) in rejects:
        m = metas[i]
        viols.append(Violation(PROP, clause, '%s %s' % (m['lang'], ' '.join(m['sequence'])), m))
    cov.update({'states': r.distinct + stats.states, 'transitions': r.generated + stats.transitions, 'binding_demonstration': demo, 'traces_validated_against_impl': len(events),
                'exhaustive': tier == 'thorough',
                'events': {'histories': len(use), 'renderings': sum(1 for e in events if e['e'] == 'render'),
                           'renderings_that_raise_even_on_a_fresh_copy': sum(1 for e in events if e['e'] == 'render' and e['fresh_raised'])},
                'samples': [metas[i] for i in (1, 2, len(events))],
                'checker_cmd': stats.cmds[0] if stats.cmds else '',
                'rule': 'all sequences of 3 formats over 12 formats from TLC (sampled in the quick tier) plus random longer histories, each replayed on one persistent result object'})
    return conclude(PROP, tier, viols, cov, t0, [
        'the snapshot is the projection of every tree, category and token attribute of the result object',
        'outputs are compared by digest with the output of a fresh copy rendered once',
        'a format that raises even on a fresh copy is C19\'s matter: only the unchanged-objects clause applies to it',
        'the ccg2lambda format is observed up to the Jigg XML handed to the semantic parser',
    ])
