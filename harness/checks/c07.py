"""C07 - every output format encodes the same derivation.
Spec: Formats.tla (per format: what the document must carry of the derivation, word and category spellings,
CoNLL heads = dependencies implied by the head flags, deriv stack decoding, Jigg reference resolution, Prolog terms);
binding: the real encoders on one parse result, lexed by an independent lexer per format, judged by RenderTrace.tla."""
import random
import time

from ..common import Violation, conclude, seed
from ..trace import validate
from .. import trees, lexers, substrate, render_family as rf

PROP = 'C07'


def cannot_carry(fmt, words):
    """tokens a format has no spelling for (recorded known findings; see DESIGN section 8)"""
    flat = [w for s in words for w in s]
    if fmt == 'ptb' and any(len(w) > 1 and ('(' in w or ')' in w) for w in flat):
        return 'probe:ptb_word_containing_round_bracket'
    if fmt == 'ja' and any(ch in w for w in flat for ch in '/{}'):
        return 'probe:ja_word_containing_field_or_brace_character'
    return ''


def run(tier):
    t0 = time.time()
    rng = random.Random(seed())
    substrate.load(hook=False)
    events, metas = [], {}

    def add(ev, meta):
        ev['id'] = len(events) + 1
        events.append(ev)
        metas[ev['id']] = meta
    n = 140 if tier == 'quick' else 3000
    per_fmt = {}
    for it in range(n):
        lang = 'en' if it % 2 else 'ja'
        rf.set_lang(lang)
        b = trees.make_batch(rng, lang, awkward=0.5, sparse=it % 4 == 3)
        words = [[t['tok']['word'] for t in trees.leaves_of(s[0])] for s in b]
        for f in (rf.FORMATS_JA if lang == 'ja' else rf.FORMATS_EN):
            real = trees.real_batch(b, random.Random(it))          # one parse result: the same derivations and scores for every format
            base = {'lang': lang, 'words': words, 'probe': cannot_carry(f, words), 'shape': [len(s) for s in b]}
            rf.render_events(PROP, f, lang, b, real, add, base)
            per_fmt[f] = per_fmt.get(f, 0) + 1
    from ..tlc import run_tlc, require_clean
    from ..common import NCPU, Machinery
    mr = require_clean(run_tlc('MCFormats.tla', 'MCFormats.cfg' if tier == 'quick' else 'MCFormats_5.cfg', workers=NCPU, timeout=7200, xmx='12g'), 'MCFormats')
    if mr.violated:
        raise Machinery('Formats.tla laws violated (specification inconsistent): %s' % mr.violated)
    rejects, stats = validate('traces/RenderTrace.tla', events, 'c07', per_shard=500)
    demo = rf.render_binding_demo(events, 'c07')
    viols = []
    unrenderable = 0
    for (i, clause) in rejects:
        if clause.endswith('.render_raised'):
            unrenderable += 1          # an encoder that raises cannot be judged here: C19's matter
            continue
        if clause.startswith(PROP + '.'):
            m = metas[i]
            viols.append(Violation(PROP, clause, (m.get('probe', '') + ' ' + str(m.get('words')))[:300].strip(), m))
    cov = {'tlc_runs': [{'cfg': 'MCFormats', 'distinct': mr.distinct, 'generated': mr.generated, 'wall_s': round(mr.wall, 1)}],
           'states': stats.states + mr.distinct, 'transitions': stats.transitions + mr.generated, 'binding_demonstration': demo, 'traces_validated_against_impl': len(events),
           'events': {'parse_results': n, 'renderings_by_format': per_fmt, 'events': len(events), 'renderings_that_raised_not_judged_here': unrenderable,
                      'tree_events': sum(1 for e in events if e['e'] == 'tree')},
           'samples': [{k: metas[i][k] for k in metas[i] if k in ('lang', 'fmt', 'words', 'text')} for i in (1, len(events) // 2, len(events))],
           'checker_cmd': stats.cmds[0] if stats.cmds else '',
           'rule': 'random parse results (1-3 sentences x 1-3 best; grammar-licensed derivations built with the real en/ja rules and arbitrary trees), tokens from an awkward alphabet (brackets, quotes, slashes, backslash, < > &, CJK, combining/emoji), each rendered in every format of its language'}
    return conclude(PROP, tier, viols, cov, t0, [
        'words are compared in each format\'s own spelling as specified in Formats.tla (Denorm, Norm, BracketEsc, identity)',
        'an encoder that raises is not judged here (C19)',
        'log-probability text is not part of the derivation and is not compared',
        'tokens a format cannot spell at all are recorded known findings (probe keys)',
    ])
