"""TLC runs of AStar.tla shared by the parser-family checks (which configs each property runs, per tier)."""
from ..common import NCPU, Machinery
from ..tlc import run_tlc, require_clean

# config -> (needs)  ; the N=3 exhaustive run is ~5 M states and belongs to C01
QUICK = {
    'C01': ['n2_plain_allties', 'n2_budget', 'n3_plain_small', 'n3_plain_small_right'],
    'C02': ['n2_unary_k3'],
    'C09': ['n2_unary_k3'],
    'C10': ['n2_unary_k3', 'n2_plain_k2'],
    'C12': ['n2_unary_k3'],
    'C16': ['n2_beam'],
}
THOROUGH_EXTRA = {
    'C01': ['n3_plain', 'n3_plain_right', 'n3_unary'],
    'C02': ['n3_unary'],
    'C09': ['n3_unary'],
    'C10': ['n3_unary_k3'],
    'C12': ['n3_unary'],
    'C16': ['n3_beam'],
}


def negative_control(cov):
    """the estimate formula the pinned tree had (EstSign = -1) must be refuted by TLC: shows the model is not vacuous"""
    r = run_tlc('MCAStar.tla', 'MCAStar_n3_small_badsign.cfg', workers=NCPU, timeout=900)
    if not r.violated:
        raise Machinery('negative control: AStar.tla with the subtracting estimate was NOT refuted')
    cov['negative_control'] = {'cfg': 'n3_small_badsign', 'violated': r.violated, 'wall_s': round(r.wall, 1)}


def add_model_runs(prop, tier, cov):
    cfgs = list(QUICK.get(prop, []))
    if tier == 'thorough':
        cfgs += THOROUGH_EXTRA.get(prop, [])
    runs = []
    for name in cfgs:
        r = require_clean(run_tlc('MCAStar.tla', 'MCAStar_%s.cfg' % name, workers=NCPU, timeout=3000), name)
        if r.violated:
            raise Machinery('AStar.tla %s: invariant %s violated: the specification itself is inconsistent\n%s' % (name, r.violated, r.out[-1500:]))
        runs.append({'cfg': name, 'distinct': r.distinct, 'generated': r.generated, 'wall_s': round(r.wall, 1)})
        cov['states'] = cov.get('states', 0) + r.distinct
        cov['transitions'] = cov.get('transitions', 0) + r.generated
    cov['tlc_runs'] = runs
    if prop == 'C01':
        negative_control(cov)
    return cov
