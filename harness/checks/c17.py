"""C17 - the category dictionary restricts exactly the listed words.
Spec: CatDict.tla (one action over arrays, all small documents x dictionaries enumerated by TLC);
binding: those vectors and random larger ones through the real apply_category_filters, and every shipped
category string / the shipped dictionary through the real loader, judged by traces/CatDictTrace.tla."""
import json
import os
import random
import time

import numpy as np

from ..common import NCPU, REPO, Machinery, Violation, conclude, seed, scratch
from ..tlc import run_tlc, require_clean
from ..trace import validate
from .. import enc, inventory, substrate

PROP = 'C17'
NEGF = np.float32(-10e32)


def proj(m):
    out = []
    for row in m:
        r = []
        for v in row:
            if v == -np.inf:
                r.append(-888888)          # log 0
            elif v == NEGF or v < -1e30:
                r.append(-999999)
            else:
                x = float(v) * 8
                if abs(x - round(x)) > 1e-6:
                    raise Machinery('non-dyadic score leaked into the trace: %r' % v)
                r.append(int(round(x)))
        out.append(r)
    return out


def run_filter(h, words, dct, ncat, cats, rng, position_coded, dup=False, single=False, neginf=0.0, neg8=None, layout='C', cdict_obj=None):
    from depccg.types import Token, ScoringResult
    doc = [[Token.of_word(w) for w in sent] for sent in words]
    scores = []
    for s, sent in enumerate(words, 1):
        n = len(sent)
        if position_coded:
            tag = np.array([[-(100 * s + 10 * i + c) for c in range(1, ncat + 1)] for i in range(1, n + 1)], dtype=np.float32) / 8
            dep = np.array([[-(1000 + 100 * s + 10 * i + hh) for hh in range(1, n + 2)] for i in range(1, n + 1)], dtype=np.float32) / 8
        else:
            tag = np.array([[-rng.randint(0, 200) for _ in range(ncat)] for _ in range(n)], dtype=np.float32) / 8
            dep = np.array([[-rng.randint(0, 200) for _ in range(n + 1)] for _ in range(n)], dtype=np.float32) / 8
        if neginf:
            # log-probabilities of impossible tags / heads
            tag[np.array([[rng.random() < neginf for _ in range(ncat)] for _ in range(n)])] = -np.inf
            dep[np.array([[rng.random() < neginf / 2 for _ in range(n + 1)] for _ in range(n)])] = -np.inf
        if layout == 'F':
            tag = np.asfortranarray(tag)
        elif layout == 'slice':
            # the tag matrix is a column slice of a wider (padded) matrix
            wide = np.full((n, ncat + 5), -7.0, dtype=np.float32)
            wide[:, 2:2 + ncat] = tag
            tag = wide[:, 2:2 + ncat]
        elif layout == 'strided':
            tall = np.full((2 * n, ncat), -7.0, dtype=np.float32)
            tall[::2] = tag
            tag = tall[::2]
        elif layout == 'T':
            tag = np.ascontiguousarray(tag.T).T
        elif layout == 'f64':
            # matrices in numpy's default precision (the values are dyadic: nothing changes but the element type)
            tag, dep = tag.astype(np.float64), dep.astype(np.float64)
        elif layout == 'f64F':
            tag = np.asfortranarray(tag.astype(np.float64))
        scores.append(ScoringResult(tag, dep))
    kw = {} if neg8 is None else {'large_negative_value': neg8 / 8.0}
    tag_in = [proj(s.tag_scores) for s in scores]
    dep_in = [proj(s.dep_scores) for s in scores]
    cdict = {w: [cats[c - 1] for c in cs] for w, cs in dct.items()} if cdict_obj is None else cdict_obj
    if dup and cdict_obj is None:
        # a category listed twice for a word means the same as listing it once
        cdict = {w: cs + cs[:1] for w, cs in cdict.items()}
    ev = {'e': 'filter', 'words': words, 'dict': {w: sorted(cs) for w, cs in dct.items()}, 'ncat': ncat, 'tag_in': tag_in, 'dep_in': dep_in,
          'raised': False, 'tag_out': tag_in, 'dep_out': dep_in, 'words_out': words, 'neg': -999999 if neg8 is None else neg8}
    try:
        if single:
            # the single-sentence calling form: a bare token list and a bare ScoringResult
            d2, s2 = h.parsing.apply_category_filters(doc[0], scores[0], list(cats), cdict, **kw)
        else:
            d2, s2 = h.parsing.apply_category_filters(doc, scores, list(cats), cdict, **kw)
        ev['tag_out'] = [proj(s.tag_scores) for s in s2]
        ev['dep_out'] = [proj(s.dep_scores) for s in s2]
        ev['words_out'] = [[t.word for t in sent] for sent in d2]
    except Exception as e:
        ev['raised'] = True
        ev['exc'] = repr(e)[:200]
    return ev


def run(tier):
    t0 = time.time()
    rng = random.Random(seed())
    r = require_clean(run_tlc('CatDict.tla', 'CatDict.cfg', workers=NCPU, timeout=900), 'CatDict')
    if r.violated:
        raise Machinery('CatDict.tla: %s violated' % r.violated)
    vecs = [json.loads(s) for s in r.tagged('VEC')]
    if len(vecs) < 10000:
        raise Machinery('too few vectors from TLC: %d' % len(vecs))
    cov = {'tlc_runs': [{'cfg': 'CatDict.cfg', 'distinct': r.distinct, 'generated': r.generated, 'vectors': len(vecs), 'wall_s': round(r.wall, 1)}]}
    h = substrate.load(hook=False)
    from depccg.cat import Category
    cats3 = [Category.parse(s) for s in ('NP', 'S[dcl]\\NP', 'N/N')]
    events, metas = [], {}

    def add(ev, meta):
        ev['id'] = len(events) + 1
        meta['exc'] = ev.pop('exc', '')
        events.append(ev)
        metas[ev['id']] = meta
    use = vecs if tier == 'thorough' else rng.sample(vecs, 25000)
    for v in use:
        dct = v['dom'] if isinstance(v['dom'], dict) else {}
        ev = run_filter(h, v['words'], dct, v['ncat'], cats3, rng, True)
        add(ev, {'words': v['words'], 'dict': dct, 'src': 'tlc'})
    n_tlc = len(use)
    # random larger documents over the real inventory
    tg = [Category.parse(s) for s in inventory.targets('en')]
    vocab = ['w%d' % i for i in range(8)] + ['the', 'The', 'THE', 'Dog', 'dog', '(', '-LRB-', ')', '-RRB-', '[', '-LSB-']
    n_rand = 300 if tier == 'quick' else 3000
    for _ in range(n_rand):
        ncat = rng.choice([5, 20, len(tg)])
        cats = tg[:ncat]
        words = [[rng.choice(vocab) for _ in range(rng.randint(1, 6))] for _ in range(rng.randint(1, 4))]
        dct = {w: sorted(rng.sample(range(1, ncat + 1), rng.randint(0, min(ncat, 6)))) for w in rng.sample(vocab, rng.randint(0, 8))}
        ev = run_filter(h, words, dct, ncat, cats, rng, False, dup=rng.random() < 0.3, single=len(words) == 1 and rng.random() < 0.7,
                        neginf=rng.choice([0.0, 0.0, 0.1, 0.4]), neg8=rng.choice([None, None, -32768, -8000]),
                        layout=rng.choice(['C', 'C', 'F', 'slice', 'strided', 'T', 'f64', 'f64F']))
        add(ev, {'words': words, 'dict': {w: len(c) for w, c in dct.items()}, 'ncat': ncat, 'src': 'random'})
    # call histories on one dictionary object: the same object with the category list in another order, and edited in place
    n_hist = 0
    for _ in range(60 if tier == 'quick' else 600):
        ncat = rng.choice([4, 6, 10])
        cats = tg[:ncat]
        words = [[rng.choice(vocab) for _ in range(rng.randint(1, 5))] for _ in range(rng.randint(1, 3))]
        dct = {w: sorted(rng.sample(range(1, ncat + 1), rng.randint(1, ncat - 1))) for w in rng.sample(vocab, rng.randint(2, 6))}
        obj = {w: [cats[c - 1] for c in cs] for w, cs in dct.items()}
        steps = []
        steps.append(('first call', dct, cats))
        rev = cats[::-1]
        steps.append(('same dictionary object, category list reversed', {w: sorted(ncat + 1 - c for c in cs) for w, cs in dct.items()}, rev))
        steps.append(('same object, original order again', dct, cats))
        for name, dd, cc in steps:
            ev = run_filter(h, words, dd, ncat, cc, rng, False, cdict_obj=obj)
            add(ev, {'words': words, 'dict': dd, 'ncat': ncat, 'src': 'history: ' + name})
            n_hist += 1
        # edit the object in place: a word added, a word removed, an entry replaced
        d2 = dict(dct)
        w_new = rng.choice([w for w in vocab if w not in d2] or [vocab[0]])
        d2[w_new] = sorted(rng.sample(range(1, ncat + 1), 1))
        obj[w_new] = [cats[c - 1] for c in d2[w_new]]
        w_del = rng.choice([w for w in dct])
        if w_del != w_new:
            del d2[w_del]
            del obj[w_del]
        w_rep = rng.choice(list(d2))
        d2[w_rep] = sorted(rng.sample(range(1, ncat + 1), rng.randint(1, ncat - 1)))
        obj[w_rep][:] = [cats[c - 1] for c in d2[w_rep]]
        ev = run_filter(h, words, d2, ncat, cats, rng, False, cdict_obj=obj)
        add(ev, {'words': words, 'dict': d2, 'ncat': ncat, 'src': 'history: same object edited in place'})
        n_hist += 1
    # shipped strings: well-formed, and dictionary categories belong to the inventory (by value)
    n_ship = 0
    dict_strings = set(inventory.shipped_strings()['cat_dict.en'])
    for src, s in inventory.distinct_strings():
        if src.startswith('tests/'):
            continue
        toks, _ = enc.lex_cat(s)
        ev = {'e': 'shipped', 'toks': toks, 'isdict': s in dict_strings, 'ok': False, 'val': enc.DUMMY, 'ptoks': []}
        try:
            c = Category.parse(s)
            ev['ok'] = True
            ev['val'] = enc.enc_cat(c)
            ev['ptoks'] = enc.lex_cat(str(c))[0]
        except Exception as e:
            ev['exc'] = repr(e)[:200]
        add(ev, {'string': s, 'src': src})
        n_ship += 1
    # the shipped dictionary with the shipped inventory through the real loader and the real filter
    from ..workers import rules_worker
    fb, fu, _, roots = rules_worker.params('en')
    from depccg.allennlp.utils import read_params
    import depccg.lang
    depccg.lang.set_global_language_to('en')
    _, _, cdict, cats_en = read_params(os.path.join(REPO, 'depccg', 'models', 'config_en.jsonnet'))
    from depccg.types import Token, ScoringResult
    raised, exc = False, ''
    try:
        ws = rng.sample(sorted(cdict), 40)
        doc = [[Token.of_word(w) for w in ws[i:i + 5]] for i in range(0, 40, 5)]
        sc = [ScoringResult(np.zeros((5, len(cats_en)), dtype=np.float32), np.zeros((5, 6), dtype=np.float32)) for _ in doc]
        h.parsing.apply_category_filters(doc, sc, cats_en, cdict)
    except Exception as e:
        raised, exc = True, repr(e)[:200]
    add({'e': 'applicable', 'raised': raised}, {'what': 'shipped cat_dict.en applied with shipped targets.en', 'exc0': exc, 'dictionary_words': len(cdict)})
    aux = os.path.join(scratch('c17aux'), 'aux.json')
    with open(aux, 'w') as f:
        json.dump({'targets_en': [enc.lex_cat(s)[0] for s in inventory.targets('en')]}, f)
    rejects, stats = validate('traces/CatDictTrace.tla', events, 'c17', per_shard=4000, env={'AUX_FILE': aux})
    from ..trace import binding_demo

    def touch_tag(e):
        if e['e'] == 'filter' and not e['raised']:
            e['tag_out'][0][0][0] -= 8
            return e

    def touch_dep(e):
        if e['e'] == 'filter' and not e['raised']:
            e['dep_out'][0][0][0] -= 8
            return e
    demo = binding_demo('traces/CatDictTrace.tla', events, [('one_tag_score_changed', touch_tag), ('one_dependency_score_changed', touch_dep)], 'c17', env={'AUX_FILE': aux})
    viols = []
    for (i, clause) in rejects:
        m = metas[i]
        viols.append(Violation(PROP, clause, json.dumps({k: m[k] for k in m if k in ('words', 'dict', 'string', 'src', 'what')})[:400], m))
    cov.update({
        'states': r.distinct + stats.states, 'transitions': r.generated + stats.transitions, 'binding_demonstration': demo, 'traces_validated_against_impl': len(events),
        'exhaustive': tier == 'thorough',
        'events': {'tlc_vectors_replayed': n_tlc, 'tlc_vectors_total': len(vecs), 'random_documents': n_rand, 'shipped_strings': n_ship,
                   'dictionary_category_strings': len(dict_strings)},
        'samples': [metas[1], metas[n_tlc + 1], metas[n_tlc + n_rand + 5], metas[len(events)]],
        'checker_cmd': stats.cmds[0] if stats.cmds else '',
        'rule': 'all documents (<=2 sentences x <=2 tokens over 3 words) x all dictionaries over 3 categories from TLC with position-coded scores; random larger documents; every distinct shipped category string',
    })
    return conclude(PROP, tier, viols, cov, t0, [
        'the large negative value (-10e32) is transported as the sentinel -999999; all other scores are dyadic and exact',
        'dictionary membership in the inventory is judged on values (targets.en spells the comma category with a blank)',
    ])
