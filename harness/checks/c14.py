"""C14 - rule application is a pure, total, reproducible function; filters only remove.
Spec: RulePurity.tla (memo machine), binding: traces/RulesTrace.tla on observations merged from
worker processes started with different PYTHONHASHSEED values."""
import os
import json
import random
import time

from ..common import NCPU, REPO, Machinery, Violation, conclude, seed
from ..tlc import run_tlc, require_clean
from ..trace import validate
from .. import enc, gen, inventory, rules

PROP = 'C14'


def multi_var_pairs(rng, n):
    """English pairs in which one feature variable X occurs several times and meets different values,
    and Japanese pairs in which a variable triple occurs several times"""
    out = []
    feats = ['dcl', 'b', 'em', 'ng', 'pss', 'adj', '']
    for _ in range(n):
        f, g, h = rng.sample(feats, 3)
        A = lambda b, v: gen.atom(b, gen.uf(v))
        shape = rng.randrange(4)
        if shape == 0:      # fa: S[X]/(NP[X]\N[X])  +  NP[f]\N[g]
            x = gen.fun(A('S', 'X'), '/', gen.fun(A('NP', 'X'), '\\', A('N', 'X')))
            y = gen.fun(A('NP', f), '\\', A('N', g))
        elif shape == 1:    # ba
            y = gen.fun(A('S', 'X'), '\\', gen.fun(A('NP', 'X'), '/', A('N', 'X')))
            x = gen.fun(A('NP', f), '/', A('N', g))
        elif shape == 2:    # fc: (S[X]\NP[X])/(S[X]\NP[X]) style with clash
            x = gen.fun(gen.fun(A('S', 'X'), '\\', A('NP', 'X')), '/', gen.fun(A('S', 'X'), '\\', A('NP', 'X')))
            y = gen.fun(gen.fun(A('S', f), '\\', A('NP', g)), '/', A('NP', h))
        else:               # gfc
            x = gen.fun(A('S', 'X'), '/', gen.fun(A('S', 'X'), '\\', A('NP', 'X')))
            y = gen.fun(gen.fun(gen.fun(A('S', f), '\\', A('NP', g)), '/', A('NP', h)), '/', A('PP', ''))
        out.append(('en', x, y))
    def T(**kv):
        return {'t': 'T', 'kv': [{'k': k, 'v': v, 'x': v.startswith('X')} for k, v in kv.items()]}
    forms = ['base', 'cont', 'stem', 'hyp']
    for _ in range(n // 2):
        a, b = rng.sample(forms, 2)
        sx = gen.atom('S', T(mod='X1', form='X2', fin='f'))
        x = gen.fun(sx, '/', gen.fun(sx, '\\', sx))
        y = gen.fun(gen.atom('S', T(mod='nm', form=a, fin='f')), '\\', gen.atom('S', T(mod='nm', form=b, fin='f')))
        out.append(('ja', x, y))
    return out


def nb_variant(c, rng):
    """the same category with 'nb' marks added to / removed from feature-less or nb atoms"""
    if c['k'] == 'F':
        return gen.fun(nb_variant(c['l'], rng), c['s'], nb_variant(c['r'], rng))
    if c['f'] in (enc.NOF, gen.uf('nb')) and c['b'] not in gen.PUNCT and c['b'] not in ('LQU', 'RQU'):
        return gen.atom(c['b'], gen.uf(rng.choice(['', 'nb'])))
    return c


def run(tier):
    t0 = time.time()
    rng = random.Random(seed())
    r = require_clean(run_tlc('RulePurity.tla', 'RulePurity.cfg', workers=NCPU, timeout=600), 'RulePurity')
    if r.violated:
        raise Machinery('RulePurity: %s violated' % r.violated)
    cov = {'tlc_runs': [{'cfg': 'RulePurity.cfg', 'distinct': r.distinct, 'generated': r.generated, 'wall_s': round(r.wall, 1)}]}
    states, trans = r.distinct, r.generated
    seeds = [0, 1, 2, 3] if tier == 'quick' else list(range(0, 64))
    inv = {'en': [enc.parse_text(s) for s in inventory.targets('en')],
           'en_rebank': [enc.parse_text(s) for s in inventory.targets('en_rebank')],
           'ja': [enc.parse_text(s) for s in inventory.targets('ja')]}
    # ---------------- A. reproducibility across processes / hash seeds / repeated calls
    tasks = []
    n_inv = 1500 if tier == 'quick' else 1200
    for _ in range(n_inv):
        lang = rng.choice(['en', 'en', 'ja'])
        pool = inv[lang] if rng.random() < 0.7 or lang == 'ja' else inv['en_rebank']
        tasks.append({'op': 'bin', 'lang': lang, 'x': rng.choice(pool), 'y': rng.choice(pool), 'reps': 2})
    for name in ('en', 'ja'):
        for a, b in rng.sample(inventory.seen_rules(name), 300):
            tasks.append({'op': 'bin', 'lang': name, 'x': enc.parse_text(a), 'y': enc.parse_text(b), 'reps': 2})
    mv = multi_var_pairs(rng, 200 if tier == 'quick' else 300)
    for lang, x, y in mv:
        tasks.append({'op': 'bin', 'lang': lang, 'x': x, 'y': y, 'reps': 2, 'mv': True})
    # twins: the same pair with the variable feature [X] put on its feature-less S atoms / left off, asked next to each
    # other (the shipped tag inventory writes modifiers without [X]; unary rules and the rebanked lexicon bring it in)
    def add_x(c):
        if c['k'] == 'F':
            return gen.fun(add_x(c['l']), c['s'], add_x(c['r']))
        return gen.atom(c['b'], gen.uf('X')) if c['b'] == 'S' and c['f'] == enc.NOF else c
    plain = [c for c in inv['en'] + inv['en_rebank'] if c['k'] == 'F' and add_x(c) != c]
    others = inv['en']
    for _ in range(200):
        c = rng.choice(plain)
        shape = rng.randrange(4)
        if shape == 0:
            x0, y0 = c, (c['r'] if c['s'] == '/' else rng.choice(others))
        elif shape == 1:
            x0, y0 = (c['r'] if c['s'] == '\\' else rng.choice(others)), c
        elif shape == 2:
            x0, y0 = rng.choice([gen.atom('conj'), gen.atom(','), gen.atom(';')]), c
        else:
            x0, y0 = c, rng.choice(others)
        pair = [(add_x(x0), add_x(y0)), (x0, y0)]
        if rng.random() < 0.5:
            pair.reverse()
        for a, b in pair:
            tasks.append({'op': 'bin', 'lang': 'en', 'x': a, 'y': b, 'reps': 2})
    # pairs mixing the two feature systems: a Japanese category against the feature-less (or one-part) spelling of its argument,
    # under both grammars
    def strip(c, how):
        if c['k'] == 'F':
            return gen.fun(strip(c['l'], how), c['s'], strip(c['r'], how))
        return gen.atom(c['b'], gen.uf(how))
    for _ in range(200):
        c = rng.choice(inv['ja'])
        how = rng.choice(['', '', 'nb', 'X', 'dcl'])
        if c['k'] == 'F':
            x0, y0 = (c, strip(c['r'], how)) if c['s'] == '/' else (strip(c['r'], how), c)
            if rng.random() < 0.5:
                x0, y0 = (strip(c, how), c['r']) if c['s'] == '/' else (c['r'], strip(c, how))
        else:
            x0, y0 = c, strip(rng.choice(inv['ja']), how)
        for lang in ('ja', 'en'):
            tasks.append({'op': 'bin', 'lang': lang, 'x': x0, 'y': y0, 'reps': 2})
    for i in range(300):
        x = gen.rand_cat(rng, 2, 'en', '/\\')
        y = gen.rand_cat(rng, 2, 'en', '/\\')
        tasks.append({'op': 'bin', 'lang': 'en', 'x': x, 'y': y, 'reps': 2})
    for name in ('en', 'en_rebank', 'ja'):
        lang = 'ja' if name == 'ja' else 'en'
        lhs = []
        for a, _ in inventory.unary_rules(name):
            if a not in lhs:
                lhs.append(a)
        for a in lhs:
            tasks.append({'op': 'un', 'lang': lang, 'x': enc.parse_text(a), 'unary': name, 'reps': 2})
        for c in rng.sample(inv[name], 60):
            tasks.append({'op': 'un', 'lang': lang, 'x': c, 'unary': name, 'reps': 2})
    for i, t in enumerate(tasks):
        t['t'] = i
    by_seed = rules.run_tasks(tasks, 'c14a', hashseeds=seeds, split=False)
    events, metas = [], {}

    def add(ev, meta):
        ev['id'] = len(events) + 1
        events.append(ev)
        metas[ev['id']] = meta
    g = 0
    n_obs = 0
    for t in tasks:
        g += 1
        m = {'x': enc.show_cat(t['x']), 'y': enc.show_cat(t['y']) if t['op'] == 'bin' else '(unary:%s)' % t.get('unary'),
             'lang': t['lang'], 'multi_variable': bool(t.get('mv'))}
        add({'e': 'key', 'g': g}, m)
        first = by_seed[seeds[0]][t['t']][0]
        if t['op'] == 'bin':
            add({'e': 'bin', 'g': g, 'lang': t['lang'], 'x': t['x'], 'y': t['y'], 'pb': rules.punct_bases(t['x'], t['y']),
                 'raised': first['raised'], 'res': first['res'], 'xa': first['x_after'], 'ya': first['y_after']}, dict(m, raised=first['exc']))
        else:
            add({'e': 'un', 'g': g, 'lang': t['lang'], 'x': t['x'], 'table': t['unary'], 'tab': [], 'raised': first['raised'],
                 'res': first['res'], 'xa': first['x_after'], 'tn0': first.get('tn0', 0), 'tn1': first.get('tn1', 0)}, dict(m, raised=first['exc']))
        seen_res = {}
        for s in seeds:
            for rep, o in enumerate(by_seed[s][t['t']]):
                n_obs += 1
                res = o['res'] if not o['raised'] else [{'c': enc.DUMMY, 'op': 'RAISED', 'sym': o['exc'][:40], 'symcp': [], 'hl': False}]
                add({'e': 'obs', 'g': g, 'seed': s, 'rep': rep, 'res': res},
                    dict(m, hashseed=s, call=rep, results=[(enc.show_cat(r['c']), r['op']) for r in res]))
    # ---------------- B. seen-rule filter: full result or empty, by membership
    ft = []
    n_f = 1500 if tier == 'quick' else 12000
    for i in range(n_f):
        name = rng.choice(['en', 'en_rebank', 'ja'])
        lang = 'ja' if name == 'ja' else 'en'
        mode = i % 4
        if mode == 0:
            x, y = rng.choice(inv[name]), rng.choice(inv[name])
        elif mode == 3:
            # a pair that combines (argument taken from the functor itself) but is mostly not a seen rule
            x = rng.choice([c for c in inv[name] if c['k'] == 'F'])
            if x['s'] == '/' :
                y = x['r']
            else:
                x, y = x['r'], x
            if rng.random() < 0.5:
                f = rng.choice([c for c in inv[name] if c['k'] == 'F' and c['s'] == '/'])
                x, y = gen.fun(f['l'], '/', y if lang == 'ja' else x), (y if lang == 'ja' else x)
        else:
            a, b = rng.choice(inventory.seen_rules(name))
            x, y = enc.parse_text(a), enc.parse_text(b)
            if mode == 2 and lang == 'en':
                x, y = nb_variant(x, rng), nb_variant(y, rng)
        ft.append({'op': 'bin', 'lang': lang, 'x': x, 'y': y, 'name': name})
    t2 = []
    for i, t in enumerate(ft):
        t2.append({'t': 2 * i, 'op': 'bin', 'lang': t['lang'], 'x': t['x'], 'y': t['y']})
        t2.append({'t': 2 * i + 1, 'op': 'bin', 'lang': t['lang'], 'x': t['x'], 'y': t['y'], 'seen': t['name']})
    # caller-supplied collections: empty, holding only other pairs, holding the (erased) pair itself
    def erased(c):
        if c['k'] == 'F':
            return gen.fun(erased(c['l']), c['s'], erased(c['r']))
        return gen.atom(c['b'], enc.NOF) if c['f'] in (gen.uf('X'), gen.uf('nb')) else c
    adhoc = []
    for i in range(300 if tier == 'quick' else 3000):
        t = ft[rng.randrange(len(ft))]
        if i % 3 != 0:       # prefer pairs that combine
            t = rng.choice([u for u in ft[3::4]])
        others = [ft[rng.randrange(len(ft))] for _ in range(rng.choice([0, 0, 1, 3]))]
        others = [u for u in others if u['lang'] == t['lang']]
        ers = (lambda c: erased(c)) if t['lang'] == 'en' else (lambda c: c)
        members = [[ers(u['x']), ers(u['y'])] for u in others if (ers(u['x']), ers(u['y'])) != (ers(t['x']), ers(t['y']))]
        if i % 5 == 4:
            members.append([ers(t['x']), ers(t['y'])])
        elif i % 5 == 2 and t['lang'] == 'en':
            # a collection its builder did not normalise: it holds the pair as it is asked ([X] / nb still on it), not the erased
            # pair - the lookup is by the erased pair, so this is a pair that has not been seen
            # (the pair: a functor with [X] on its feature-less S atoms and its own argument, so that it combines)
            c = rng.choice(plain)
            cx = add_x(c)
            tx, ty = (cx, cx['r']) if cx['s'] == '/' else (cx['l'] if rng.random() < 0.5 else cx['r'], cx)
            t = {'op': 'bin', 'lang': 'en', 'x': tx, 'y': ty, 'name': 'en'}
            members = [m for m in members if m != [erased(tx), erased(ty)]] + [[tx, ty]]
        adhoc.append({'lang': t['lang'], 'x': t['x'], 'y': t['y'], 'members': members, 'frozen': i % 2 == 1})
    base_t = 2 * len(ft)
    for i, t in enumerate(adhoc):
        t2.append({'t': base_t + 2 * i, 'op': 'bin', 'lang': t['lang'], 'x': t['x'], 'y': t['y']})
        t2.append({'t': base_t + 2 * i + 1, 'op': 'bin', 'lang': t['lang'], 'x': t['x'], 'y': t['y'], 'adhoc': t['members'], 'frozen': t['frozen']})
    ob2 = rules.run_tasks(t2, 'c14b')
    n_adhoc_empty = 0
    for i, t in enumerate(adhoc):
        full, res = ob2[base_t + 2 * i][0], ob2[base_t + 2 * i + 1][0]
        g += 1
        meta = {'x': enc.show_cat(t['x']), 'y': enc.show_cat(t['y']), 'set': 'caller-supplied %s of %d pairs' % ('frozenset' if t['frozen'] else 'set', len(t['members']))}
        if full['raised'] or res['raised']:
            add({'e': 'bin', 'g': g, 'lang': t['lang'], 'x': t['x'], 'y': t['y'], 'pb': [], 'raised': True, 'res': [], 'xa': t['x'], 'ya': t['y']},
                dict(meta, raised=full['exc'] or res['exc']))
            continue
        n_adhoc_empty += 0 if t['members'] else 1
        add({'e': 'filt', 'g': g, 'lang': t['lang'], 'set': 'adhoc', 'members': t['members'], 'x': t['x'], 'y': t['y'], 'full': full['res'], 'res': res['res']},
            dict(meta, full=len(full['res']), filtered=len(res['res'])))
    n_member = 0
    for i, t in enumerate(ft):
        full, res = ob2[2 * i][0], ob2[2 * i + 1][0]
        g += 1
        if full['raised'] or res['raised']:
            add({'e': 'bin', 'g': g, 'lang': t['lang'], 'x': t['x'], 'y': t['y'], 'pb': [], 'raised': True, 'res': [], 'xa': t['x'], 'ya': t['y']},
                {'x': enc.show_cat(t['x']), 'y': enc.show_cat(t['y']), 'raised': full['exc'] or res['exc'], 'set': t['name']})
            continue
        n_member += 1 if res['res'] else 0
        add({'e': 'filt', 'g': g, 'lang': t['lang'], 'set': t['name'], 'x': t['x'], 'y': t['y'], 'full': full['res'], 'res': res['res']},
            {'x': enc.show_cat(t['x']), 'y': enc.show_cat(t['y']), 'set': t['name'], 'full': len(full['res']), 'filtered': len(res['res'])})
    # ---------------- C. English results do not depend on nb marks
    nt = []
    n_nb = 1500 if tier == 'quick' else 12000
    for i in range(n_nb):
        pool = inv['en'] if i % 2 else inv['en_rebank']
        x, y = rng.choice(pool), rng.choice(pool)
        if i % 3 == 0:
            a, b = rng.choice(inventory.seen_rules('en'))
            x, y = enc.parse_text(a), enc.parse_text(b)
        nt.append((x, y, nb_variant(x, rng), nb_variant(y, rng)))
    t3 = []
    for i, (x, y, x2, y2) in enumerate(nt):
        t3.append({'t': 2 * i, 'op': 'bin', 'lang': 'en', 'x': x, 'y': y})
        t3.append({'t': 2 * i + 1, 'op': 'bin', 'lang': 'en', 'x': x2, 'y': y2})
    ob3 = rules.run_tasks(t3, 'c14c')
    for i, (x, y, x2, y2) in enumerate(nt):
        a, b = ob3[2 * i][0], ob3[2 * i + 1][0]
        g += 1
        if a['raised'] or b['raised']:
            continue
        add({'e': 'nbpair', 'g': g, 'x1': x, 'y1': y, 'res1': a['res'], 'x2': x2, 'y2': y2, 'res2': b['res']},
            {'x': enc.show_cat(x), 'y': enc.show_cat(y), 'x2': enc.show_cat(x2), 'y2': enc.show_cat(y2)})
    # ---------------- D. unary lookup over whole inventories
    ut = []
    for name in ('en', 'en_rebank', 'ja'):
        lang = 'ja' if name == 'ja' else 'en'
        for c in inv[name]:
            ut.append({'t': len(ut), 'op': 'un', 'lang': lang, 'x': c, 'unary': name})
    ob4 = rules.run_tasks(ut, 'c14d')
    for t in ut:
        o = ob4[t['t']][0]
        g += 1
        add({'e': 'un', 'g': g, 'lang': t['lang'], 'x': t['x'], 'table': t['unary'], 'tab': [], 'raised': o['raised'], 'res': o['res'],
             'xa': o['x_after'], 'tn0': o.get('tn0', 0), 'tn1': o.get('tn1', 0)}, {'x': enc.show_cat(t['x']), 'y': '(unary:%s)' % t['unary'], 'raised': o['exc'], 'n_results': len(o['res'])})
    # ---------------- E. unary lookups through tables that change: one table object edited in place between the calls, and
    # short-lived tables built for each call (same left-hand side, other targets): the table of each call decides
    ht = []
    lhs_pool = [c for c in inv['en'][:40]] + [c for c in inv['ja'][:20]]
    for i in range(200 if tier == 'quick' else 2000):
        lang = 'en' if i % 3 else 'ja'
        pool = inv['en'] if lang == 'en' else inv['ja']
        xq = rng.choice(pool[:30])
        mode = 'same' if i % 2 else 'fresh'
        for step in range(3):
            targets = rng.sample(pool, rng.randint(0, 3))
            others = [(rng.choice(pool), rng.choice(pool)) for _ in range(rng.randint(0, 2))]
            tab = [[xq, t] for t in targets] + [[a, b] for a, b in others if a != xq]
            xlook = xq
            if lang == 'en' and step and rng.random() < 0.5:
                # the table is consulted under the category itself: a left-hand side that differs from the category only by a
                # feature that other parts of the grammar ignore ('nb', a variable) is another entry
                twin = json.loads(json.dumps(xq))
                at = rng.choice(enc.leaves(twin))
                fv = at['f'].get('v', '') if at['f'].get('t') == 'U' else None
                if fv is not None:
                    at['f'] = {'t': 'U', 'v': rng.choice([v for v in ('', 'nb', 'X') if v != fv])}
                    if rng.random() < 0.5:
                        tab = tab + [[twin, t] for t in rng.sample(pool, rng.randint(1, 2))]      # both spellings are keys
                    if rng.random() < 0.6:
                        xlook = twin
            ht.append({'t': len(ht), 'op': 'un', 'lang': lang, 'x': xlook, 'table': tab, 'hist_table': mode})
    ob5 = rules.run_tasks(ht, 'c14e', split=False, hashseeds=seeds[:2])
    for t in ht:
        o = ob5[seeds[0]][t['t']][0]
        g += 1
        add({'e': 'un', 'g': g, 'lang': t['lang'], 'x': t['x'], 'table': 'inline', 'tab': t['table'], 'raised': o['raised'], 'res': o['res'],
             'xa': o['x_after'], 'tn0': o.get('tn0', 0), 'tn1': o.get('tn1', 0)},
            {'x': enc.show_cat(t['x']), 'y': '(unary: %s table, %d entries)' % ('one object edited in place' if t['hist_table'] == 'same' else 'built for this call', len(t['table'])),
             'raised': o['exc'], 'n_results': len(o['res'])})
    rejects, stats = validate('traces/RulesTrace.tla', events, 'c14', per_shard=12000, group='g', env={'AUX_FILE': rules.aux_file()})
    from ..trace import binding_demo

    def change_obs(e):
        if e['e'] == 'obs' and e['seed'] != seeds[0] and e['res']:
            e['res'] = e['res'][1:]
            return e

    def filt_partial(e):
        if e['e'] == 'filt' and len(e['full']) > 1 and e['res']:
            e['res'] = e['res'][:1]
            return e
    demo = binding_demo('traces/RulesTrace.tla', events, [('one_observation_changed', change_obs), ('filtered_result_partial', filt_partial)], 'c14', env={'AUX_FILE': rules.aux_file()}, group='g')
    viols = []
    for (i, clause) in rejects:
        if not clause.startswith('C14.'):
            continue
        m = metas[i]
        viols.append(Violation(PROP, clause, '%s  %s' % (m.get('x'), m.get('y')), m))
    cov.update({
        'states': states + stats.states,
        'transitions': trans + stats.transitions,
        'traces_validated_against_impl': len(events),
        'binding_demonstration': demo,
        'events': {'keys_observed_in_every_process': len(tasks), 'hash_seeds': seeds, 'observations': n_obs, 'multi_variable_pairs': len(mv),
                   'filter_events': n_f, 'filter_events_with_caller_supplied_sets': len(adhoc), 'of_which_empty_set': n_adhoc_empty, 'filter_events_with_nonempty_result': n_member, 'nb_pairs': n_nb, 'unary_lookups': len(ut)},
        'samples': [metas[i] for i in (2, 3, len(events) - len(ut) - 5, len(events))],
        'checker_cmd': stats.cmds[0] if stats.cmds else '',
        'rule': 'each key is applied twice in each of %d fresh interpreters with different PYTHONHASHSEED; all observations of a key must be the same list' % len(seeds),
    })
    return conclude(PROP, tier, viols, cov, t0, [
        'seen-rule sets and unary tables are the real ones built by read_params from the shipped configuration (jsonnet stand-in)',
        'Japanese pairs containing variable triples: filter membership unspecified (full or empty both accepted)',
        'an exception is reported once per key (clause rule_application_raised) and as a pseudo-result in the observations',
    ])
