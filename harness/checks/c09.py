"""C09 - see DESIGN.md section 6/C09.  Spec: AStar.tla + Oracles.tla; binding: traces/ParserTrace.tla."""
from ..common import conclude
from .. import parser_family as pf
from . import parser_models as pm

PROP = 'C09'


def run(tier):
    viols, cov, t0 = pf.run_family(PROP, tier)
    cov = pm.add_model_runs(PROP, tier, cov)
    return conclude(PROP, tier, viols, cov, t0, pf.ASSUMPTIONS)
