"""C20 - PTB and Japanese-bank text written by depccg reads back to the same tree.
Spec: Formats.tla (ReadFails), binding: real ptb_of -> read_ptb, real ja_of -> read_ccgbank (derivation lines,
with and without the bank's dependency annotations), truncated PTB lines must be rejected."""
import random
import re
import time

from ..common import Violation, conclude, seed
from ..trace import validate
from .. import enc, trees, lexers, substrate, render_family as rf

PROP = 'C20'
_hdr = re.compile(r'^ID=\d+, log probability=')


def strip_headers(text):
    return '\n'.join(ln for ln in text.split('\n') if not _hdr.match(ln)) 


def annotate(line, rng):
    """the bank's dependency annotations, added structurally: {I1}/{I2} after some atoms of a category,
    _none / _I1 / _I2 after leaf categories (spec-defined decoration of a line depccg printed)"""
    try:
        t = lexers.lex_ja_line(line)
    except lexers.LexError:
        return line

    def ann(cat):
        return re.sub(r'\]', lambda m: ']' + rng.choice(['', '{I1}', '{I2}']), cat)

    def emit(n):
        if n['k'] == 'L':
            a = {x['k']: x['v'] for x in n['attrs']}
            word = ''.join(chr(c) for c in n['wordcp'])
            return '{%s%s %s/%s/%s/%s}' % (ann(n['cat']), rng.choice(['_none', '_I1', '_I2']), word, a['word2'], a['pos'], a['infl'])
        return '{%s %s %s}' % (n['sym'], ann(n['cat']), ' '.join(emit(k) for k in n['kids']))
    return emit(t)


def run(tier):
    t0 = time.time()
    rng = random.Random(seed())
    substrate.load(hook=False)
    from depccg.tools.reader import read_ptb
    from depccg.tools.ja.reader import read_ccgbank
    events, metas = [], {}

    def add(ev, meta):
        ev['id'] = len(events) + 1
        events.append(ev)
        metas[ev['id']] = meta
    n = 200 if tier == 'quick' else 3000
    n_trunc = 0
    for it in range(n):
        # ---- PTB over the English lexicon
        rf.set_lang('en')
        b = trees.make_batch(rng, 'en', awkward=0.4, exclude='\\')
        probe = it % 10 == 9
        inner = False
        if probe:
            sent = rng.choice(b)
            lv = trees.leaves_of(sent[0])
            j = rng.randrange(len(lv))
            pw = rng.choice(['f(x)', '(ab', 'gh)', 'x)', '(('])
            for tr in sent:
                trees.leaves_of(tr)[j]['tok']['word'] = pw
        for sent in b:
            for lf in trees.leaves_of(sent[0]):
                w = lf['tok']['word']
                # K01: a longer word that BEGINS with '(' (read as a category) or ENDS with ')' (read as a closing bracket) has no
                # spelling in the format; any other word with round brackets in it (')a', 'a(b', '):') is an ordinary word and must
                # come back
                if len(w) > 1 and (w[0] == '(' or w[-1] == ')'):
                    if probe:
                        inner = True
                    else:
                        neww = rng.choice(trees.PLAIN)
                        for tr in sent:
                            for x in trees.leaves_of(tr):
                                if x['tok']['word'] == w:
                                    x['tok']['word'] = neww
        base = {'lang': 'en', 'words': [[t['tok']['word'] for t in trees.leaves_of(s[0])] for s in b]}
        if inner:
            base['probe'] = 'probe:ptb_word_containing_round_bracket'
        real = trees.real_batch(b, rng)
        text, results = rf.read_back(PROP, 'ptb', 'en', real, add, base, reader=read_ptb, suffix='.ptb')
        # incomplete lines must be rejected
        if probe and it % 20 == 19:
            # K04: a prefix that ends inside a word with a round bracket in it can be a complete bracketing of its own
            # ('(ROOT (N x)[' of the line for the word 'x)[conj]'): the same missing escaping convention as K01, seen from the
            # side of the incomplete-line clause.  One fixed instance is probed; random truncation leaves such lines alone.
            from depccg.printer import to_string
            one = [[trees.leaf(enc.parse_text('N'), {'word': 'x)[conj]'})]]
            ptext = to_string(trees.real_batch(one, rng), format='ptb')
            pl = [ln for ln in ptext.split('\n') if ln.startswith('(ROOT')][0]
            trunc = pl[:pl.index('x)[') + 3]
            raised = False
            try:
                list(read_ptb(rf.write_tmp(trunc + '\n', '.ptb')))
            except Exception:
                raised = True
            add({'e': 'must_raise', 'p': PROP, 'fmt': 'ptb', 'what': 'incomplete_line_not_rejected', 'raised': raised},
                {'lang': 'en', 'words': [['x)[conj]']], 'fmt': 'ptb', 'text': trunc, 'probe': 'probe:ptb_prefix_ending_inside_a_word_with_a_round_bracket'})
        has_inner = any(len(w) > 1 and ('(' in w or ')' in w) for ws in base['words'] for w in ws)
        if text and not probe and not has_inner:
            lines = [ln for ln in text.split('\n') if ln.startswith('(ROOT')]
            ln = rng.choice(lines)
            if len(ln) > 12:
                # truncation points: right after a complete sub-tree (after a ')'), inside a word / category, and random ones
                closes = [i + 1 for i, ch in enumerate(ln[:-1]) if ch == ')' and i > 8]
                cuts = set(rng.sample(closes, min(3, len(closes))) + [rng.randint(8, len(ln) - 1) for _ in range(3)])
                for cut in sorted(cuts):
                    trunc = ln[:cut].rstrip(' ')
                    if trunc.count('(') > trunc.count(')'):
                        n_trunc += 1
                        raised = False
                        try:
                            list(read_ptb(rf.write_tmp(trunc + '\n', '.ptb')))
                        except Exception:
                            raised = True
                        add({'e': 'must_raise', 'p': PROP, 'fmt': 'ptb', 'what': 'incomplete_line_not_rejected', 'raised': raised}, dict(base, fmt='ptb', text=trunc[:400]))
        # ---- Japanese bank format over the Japanese lexicon: tokens without backslash and without / { }
        rf.set_lang('ja')
        b = trees.make_batch(rng, 'ja', awkward=0.4, exclude='\\/{}')
        drop_other(b)
        base = {'lang': 'ja', 'words': [[t['tok']['word'] for t in trees.leaves_of(s[0])] for s in b]}
        real = trees.real_batch(b, rng)
        text, results = rf.read_back(PROP, 'ja', 'ja', real, add, base, reader=read_ccgbank, suffix='.ja', transform=strip_headers)
        if text:
            ann = '\n'.join(annotate(ln, rng) for ln in strip_headers(text).split('\n'))
            rf.read_back(PROP, 'ja', 'ja', real, add, dict(base, annotated=True), text=ann, reader=read_ccgbank, suffix='.ja')
    n_dispatch = dispatch_events(rng, add, 60 if tier == 'quick' else 600)
    rejects, stats = validate('traces/RenderTrace.tla', events, 'c20', per_shard=400)
    demo = rf.render_binding_demo(events, 'c20')
    disp_dev = [metas[i] for (i, clause) in rejects if clause.startswith('DISPATCH.')]
    if disp_dev:
        print('NOTE reader selection by file name (outside the listed properties) deviates from Formats!ReaderByExtension: %d names, e.g. %r' % (len(disp_dev), disp_dev[0]))
    viols = []
    for (i, clause) in rejects:
        if clause.startswith(PROP + '.'):
            m = metas[i]
            viols.append(Violation(PROP, clause, (m.get('probe', '') + ' ' + str(m.get('words')))[:300].strip(), m))
    cov = {'states': stats.states, 'transitions': stats.transitions, 'binding_demonstration': demo, 'traces_validated_against_impl': len(events),
           'reader_selection_by_file_name_against_Formats': {'names': n_dispatch, 'deviations': len(disp_dev), 'first_deviation': disp_dev[:1]},
           'events': {'batches_per_format': n, 'truncated_ptb_lines': n_trunc, 'events': len(events),
                      'read_events': sum(1 for e in events if e['e'] == 'read')},
           'samples': [{k: metas[i][k] for k in metas[i] if k in ('lang', 'fmt', 'words', 'text')} for i in (1, len(events) // 2, len(events))],
           'checker_cmd': stats.cmds[0] if stats.cmds else '',
           'rule': 'random batches over the English (PTB) and Japanese (bank format, plain and with dependency annotations) lexicons; tokens without backslashes (and without / { } for the Japanese format), incl. bracket tokens'}
    return conclude(PROP, tier, viols, cov, t0, [
        'Japanese-format files are the derivation lines depccg prints (ID headers stripped: the bank has none)',
        'trees rendered in the Japanese format use only rule symbols of the bank (the OTHER label of non-adnominal/adverbial unary steps is excluded)',
        'label recovery of read_ptb is judged under C12',
    ])


def dispatch_events(rng, add, n):
    """read_trees_guess_extension on file names built from awkward stems and (near-)extensions: which of the four readers runs is
    recorded (the readers are replaced by recorders for the duration) and judged by Formats!ReaderByExtension.  Outside the listed
    properties: reported, never a violation."""
    import depccg.tools.reader as R
    names = ('read_auto', 'read_xml', 'read_jigg_xml', 'read_ptb')
    orig = {k: getattr(R, k) for k in names}
    ran = []

    def recorder(kind):
        def f(filename):
            ran.append(kind)
            return iter(())
        return f
    exts = ['.auto', '.xml', '.jigg.xml', '.ptb', '.txt', '', '.XML', '.xml.auto', '.ptb.xml', '.jigg.xml.ptb', 'xml', '.jiggxml', '.jigg.xml ',
            '.xml.jigg', '.jigg', '.ptb.', '.Ptb', '.jigg.XML', '.xml.ptb', '.auto.jigg.xml']
    stems = ['a', 'dev', 'wsj_00', '', 'x.y', '.', 'a.xml', 'b.jigg', '日本', 'dir.ptb/file', 'a b']
    count = 0
    try:
        for k in names:
            setattr(R, k, recorder({'read_auto': 'auto', 'read_xml': 'xml', 'read_jigg_xml': 'jigg_xml', 'read_ptb': 'ptb'}[k]))
        for _ in range(n):
            name = rng.choice(stems) + rng.choice(exts)
            del ran[:]
            try:
                for _x in R.read_trees_guess_extension(name):
                    pass
            except Exception as e:
                ran.append('raised:' + repr(e)[:60])
            add({'e': 'dispatch', 'p': 'DISPATCH', 'fmt': '', 'name': [ord(ch) for ch in name], 'ran': list(ran)}, {'file_name': name, 'readers_run': list(ran)})
            count += 1
    finally:
        for k in names:
            setattr(R, k, orig[k])
    return count


def drop_other(batch):
    """replace the symbol OTHER (not a rule symbol of the bank) in arbitrary trees"""
    def rec(t):
        if t['sym'] == 'OTHER':
            t['sym'] = t['lab'] = 'ADV0'
        for k in t['kids']:
            rec(k)
    for sent in batch:
        for t in sent:
            rec(t)
