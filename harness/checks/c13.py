"""C13 - categories behave as values.  Spec: CatLaws.tla (laws on a bounded universe), KeyedStore.tla
(container histories); binding: traces/ValueTrace.tla on events recorded from the real objects."""
import json
import random
import time

from ..common import NCPU, Machinery, Violation, conclude, seed
from ..tlc import run_tlc, require_clean
from ..trace import validate, TraceStats
from .. import enc, gen, inventory

PROP = 'C13'
HOWS = ('ctor', 'parse', 'ops', 'shared')


def build(v, how, memo=None):
    from depccg.cat import Category, Functor
    if how == 'shared':
        # equal sub-values are one object (as `y | y`, `x.functor(a, a)` or a rule that returns part of its input give):
        # a value is what it is made of, not how its parts are held
        memo = {} if memo is None else memo
        key = json.dumps(v, sort_keys=True)
        if key not in memo:
            if v['k'] == 'A':
                memo[key] = enc.dec_cat(v)
            else:
                l, r = build(v['l'], 'shared', memo), build(v['r'], 'shared', memo)
                memo[key] = l / r if v['s'] == '/' else (l | r if v['s'] == '\\' else Functor(l, v['s'], r))
        return memo[key]
    if how == 'ctor':
        return enc.dec_cat(v)
    if how == 'parse':
        return Category.parse(enc.show_cat(v))
    if v['k'] == 'A':
        return enc.dec_cat(v)
    l, r = build(v['l'], 'ops'), build(v['r'], 'ops')
    if v['s'] == '/':
        return l / r
    if v['s'] == '\\':
        return l | r
    return Functor(l, v['s'], r)


def model(mod, cfg, timeout=900):
    r = require_clean(run_tlc(mod, cfg, workers=NCPU, timeout=timeout), cfg)
    if r.violated:
        raise Machinery('%s: %s violated (specification inconsistent)\n%s' % (cfg, r.violated, r.out[-1500:]))
    return r


def run(tier):
    t0 = time.time()
    rng = random.Random(seed())
    cov = {'tlc_runs': []}
    states = trans = 0
    runs = [('CatLaws.tla', 'CatLaws_d1.cfg'), ('CatLaws.tla', 'CatLaws_d2.cfg'), ('MCKeyedStore.tla', 'MCKeyedStore.cfg')]
    out = {}
    for mod, cfg in runs:
        r = model(mod, cfg)
        out[cfg] = r
        states += r.distinct
        trans += r.generated
        cov['tlc_runs'].append({'cfg': cfg, 'distinct': r.distinct, 'generated': r.generated, 'wall_s': round(r.wall, 1)})
    universe = [json.loads(s) for s in out['CatLaws_d1.cfg'].tagged('VEC')]
    hists = [json.loads(s) for s in out['MCKeyedStore.cfg'].tagged('VEC')]
    if len(universe) < 100 or len(hists) < 1000:
        raise Machinery('too few TLC vectors: %d values, %d histories' % (len(universe), len(hists)))
    events, metas = [], {}
    eid = [0]

    def add(ev, meta):
        eid[0] += 1
        ev['id'] = eid[0]
        events.append(ev)
        metas[eid[0]] = meta

    def ev_eq(va, vb):
        ha, hb = rng.choice(HOWS), rng.choice(HOWS)
        a, b = build(va, ha), build(vb, hb)
        res, res2, ne, heq, h0 = bool(a == b), bool(b == a), bool(a != b), hash(a) == hash(b), hash(a)
        ea, eb = enc.enc_cat(a), enc.enc_cat(b)
        # the same objects after one of them has been printed and compared with a text
        str(a)
        repr(a)
        a == 'NP'
        add({'e': 'eq', 'g': 0, 'a': ea, 'b': eb, 'res': res, 'res2': res2,
             'ne': ne, 'heq': heq, 'heq2': hash(a) == hash(b), 'hstable': hash(a) == h0},
            {'a': enc.show_cat(va), 'b': enc.show_cat(vb), 'built': [ha, hb]})

    def ev_xor(va, vb):
        ha, hb = rng.choice(HOWS), rng.choice(HOWS)
        a, b = build(va, ha), build(vb, hb)
        add({'e': 'xor', 'g': 0, 'a': enc.enc_cat(a), 'b': enc.enc_cat(b), 'res': bool(a ^ b)},
            {'a': enc.show_cat(va), 'b': enc.show_cat(vb), 'built': [ha, hb]})

    def ev_eqt(va, toks, spaced):
        a = build(va, rng.choice(HOWS))
        text = enc.toks_text(toks, rng if spaced else None)
        ltoks, blank = enc.lex_cat(text)
        add({'e': 'eqt', 'g': 0, 'a': enc.enc_cat(a), 'toks': ltoks, 'blank': blank, 'res': bool(a == text)},
            {'a': enc.show_cat(va), 'text': text})

    def ev_clr(va, names):
        a = build(va, rng.choice(HOWS))
        before = enc.enc_cat(a)
        r1 = a.clear_features(*names)
        r2 = r1.clear_features(*names)
        add({'e': 'clr', 'g': 0, 'a': before, 'a2': enc.enc_cat(a), 'fs': [enc.feat_of_text(n) for n in names],
             'res': enc.enc_cat(r1), 'res2': enc.enc_cat(r2)},
            {'a': enc.show_cat(va), 'names': list(names)})

    # ---- pairs of the TLC universe (exhaustive), both orders
    for va in universe:
        for vb in universe:
            ev_eq(va, vb)
            ev_xor(va, vb)
    n_pairs = len(universe) ** 2
    # ---- comparison with text
    for va in universe:
        ev_eqt(va, gen.show_toks(va), False)
        ev_eqt(va, gen.show_toks(va), True)
        ev_eqt(va, gen.deco_toks(va, rng, 0.5), False)
        ev_eqt(va, gen.show_toks(rng.choice(universe)), False)
        ev_eqt(va, gen.show_toks(enc.enc_cat(build(va, 'ctor').clear_features('dcl', 'X', 'nb'))), False)
    # ---- erasure
    tern = 'mod=nm,form=X1,fin=f'
    namesets = [(), ('dcl',), ('X',), ('nb',), ('X', 'nb'), ('dcl', 'X', 'nb'), (tern,), (tern, 'nb'), ('em',)]
    for va in universe:
        for ns in namesets:
            ev_clr(va, ns)
    # ---- random deeper values and shipped categories
    n_rand = 4000 if tier == 'quick' else 60000
    inv = [s for _, s in inventory.distinct_strings()]
    from depccg.cat import Category
    for i in range(n_rand):
        system = 'en' if i % 2 else 'ja'
        va = gen.rand_cat(rng, rng.choice([1, 2, 3]), system, feats=gen.EN_FEATS_WIDE)
        if i % 3 == 0:
            vb = va
        elif i % 3 == 1:
            vb = enc.enc_cat(Category.parse(rng.choice(inv)))
        else:
            # a near copy: one leaf feature changed / erased
            vb = enc.enc_cat(build(va, 'ctor').clear_features(rng.choice(['dcl', 'X', 'nb', 'b', 'em'])))
        ev_eq(va, vb)
        ev_xor(va, vb)
        # a near copy that differs in exactly one slash, at any depth (result spine or argument)
        def flip(c, st):
            if c['k'] != 'F':
                return c
            if st[0] == 0:
                st[0] = -1
                return gen.fun(c['l'], rng.choice([x for x in '/\\|' if x != c['s']]), c['r'])
            st[0] -= 1
            l = flip(c['l'], st)
            return gen.fun(l, c['s'], flip(c['r'], st) if st[0] >= 0 else c['r'])
        def nslash(c):
            return 0 if c['k'] != 'F' else 1 + nslash(c['l']) + nslash(c['r'])
        if nslash(va) > 0:
            vs = flip(va, [rng.randrange(nslash(va))])
            ev_eq(va, vs)
            ev_xor(va, vs)
        if system == 'ja':
            # a twin carrying the same feature values under another key name in one atom
            def rename(c, st):
                if c['k'] == 'F':
                    return gen.fun(rename(c['l'], st), c['s'], rename(c['r'], st))
                if c['f'].get('t') == 'T' and not st[0] and rng.random() < 0.6:
                    st[0] = True
                    kv = [dict(p) for p in c['f']['kv']]
                    j = rng.randrange(len(kv))
                    kv[j]['k'] = rng.choice([k for k in ('case', 'mod', 'form', 'fin', 'kind') if k not in [p['k'] for p in kv]])
                    return gen.atom(c['b'], {'t': 'T', 'kv': kv})
                return c
            vt = rename(va, [False])
            ev_eq(va, vt)
            ev_xor(va, vt)
            ev_clr(vt, tuple(enc.show_cat(x)[len(x['b']) + 1:-1] for x in gen._atoms_of(va, []) if x['f'].get('t') == 'T')[:2])
        names = tuple(rng.sample(['dcl', 'X', 'nb', 'em', 'b', 'adj', 'mod=nm,form=base,fin=f', 'case=ga,mod=nm,fin=f'], rng.randint(0, 3)))
        ev_clr(va, names)
        if i % 4 == 0:
            vi = enc.enc_cat(Category.parse(rng.choice(inv)))
            ev_clr(vi, ('X', 'nb'))
            ev_eqt(vi, gen.show_toks(vi), False)
    # ---- values outside the model's alphabet (a one-part feature whose name is the empty text prints like no feature): nothing is
    # said about WHEN they are equal, only what C13 states of any two values - equality is symmetric, != is its negation,
    # equal values hash equally and a value's hash never changes
    from depccg.cat import Atom, Functor, UnaryFeature

    def degenerate(c, p):
        if isinstance(c, Functor):
            return Functor(degenerate(c.left, p), c.slash, degenerate(c.right, p))
        return Atom(c.base, UnaryFeature('')) if c.feature == UnaryFeature(None) and rng.random() < p else c
    n_deg = 0
    for i in range(60 if tier == 'quick' else 600):
        va = rng.choice(universe)
        a0 = build(va, 'ctor')
        a, b = degenerate(a0, 0.7), degenerate(a0, 0.3 if i % 2 else 0.0)
        res, res2, ne, heq, h0 = bool(a == b), bool(b == a), bool(a != b), hash(a) == hash(b), hash(a)
        str(a)
        a == 'NP'
        n_deg += 1
        add({'e': 'eqd', 'g': 0, 'res': res, 'res2': res2, 'ne': ne, 'heq': heq, 'heq2': hash(a) == hash(b), 'hstable': hash(a) == h0},
            {'a': repr(a)[:200], 'b': repr(b)[:200], 'note': 'atoms with the empty-named one-part feature'})
    # ---- container histories generated by TLC, replayed on a real dict and a real set
    n_hist = 0
    g = 0
    for container in ('dict', 'set'):
        for hist in hists:
            g += 1
            n_hist += 1
            store = {} if container == 'dict' else set()
            add({'e': 'reset', 'g': g, 'key': enc.DUMMY, 'found': False, 'size': 0}, {'container': container})
            for step in hist:
                k = build(step['key'], rng.choice(HOWS))
                found = k in store
                if step['op'] == 'ins':
                    if container == 'dict':
                        store[k] = True
                    else:
                        store.add(k)
                elif step['op'] == 'del':
                    if container == 'dict':
                        store.pop(k, None)
                    else:
                        store.discard(k)
                add({'e': step['op'], 'g': g, 'key': enc.enc_cat(k), 'found': bool(found), 'size': len(store)},
                    {'container': container, 'history': [(s['op'], enc.show_cat(s['key'])) for s in hist]})
    rejects, stats = validate('traces/ValueTrace.tla', events, 'c13', per_shard=12000, group='g')
    from ..trace import binding_demo

    def flip_eq(e):
        if e['e'] == 'eq':
            e['res'] = not e['res']
            return e

    def flip_found(e):
        if e['e'] == 'look':
            e['found'] = not e['found']
            return e
    demo = binding_demo('traces/ValueTrace.tla', events, [('eq_result_flipped', flip_eq), ('lookup_result_flipped', flip_found)], 'c13', group='g')
    viols = []
    for (i, clause) in rejects:
        m = metas[i]
        key = m.get('a', '') + (' ~ ' + m['b'] if 'b' in m else '') + (' ' + repr(m['names']) if 'names' in m else '') + (' "%s"' % m['text'] if 'text' in m else '')
        viols.append(Violation(PROP, clause, key.strip() or json.dumps(m)[:200], m))
    cov.update({
        'states': states + stats.states,
        'transitions': trans + stats.transitions,
        'traces_validated_against_impl': len(events),
        'exhaustive': True,
        'binding_demonstration': demo,
        'events': {'universe_values': len(universe), 'universe_pairs': n_pairs, 'random_values': n_rand,
                   'container_histories': n_hist, 'total_events': len(events)},
        'samples': [dict(metas[events[i]['id']], event=events[i]['e']) for i in (0, 1, 2 * n_pairs + 3, 2 * n_pairs + 5 * len(universe) + 2, len(events) - 1)],
        'checker_cmd': stats.cmds[0] if stats.cmds else '',
        'rule': 'all ordered pairs of the depth-1 universe emitted by TLC (both feature systems), all length-4 container histories over 3 keys emitted by TLC, plus random values / shipped categories',
    })
    return conclude(PROP, tier, viols, cov, t0, [
        'values are compared in TLC on their projections; keys are built three ways (constructors, parser, / and | operators)',
        'equal_but_different_hash is only demanded for equal values',
        'feature names passed to clear_features are feature texts; the harness lexer structures them for TLC',
    ])
