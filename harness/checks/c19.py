"""C19 - whatever the parser can return can be rendered in every offered format.
Spec: label vocabularies of GrammarEn/GrammarJa.tla are what the encoders must accept; RenderTrace.tla judges every
rendering (no exception; the other sentences of a batch still decode to their derivations with Formats.tla).
Derivations cover every label the real rule functions return, every unary-table entry, and the real failure placeholder."""
import copy
import json
import os
import random
import re
import time

import numpy as np

from ..common import REPO, Machinery, Violation, conclude, seed
from ..trace import validate
from .. import enc, trees, lexers, substrate, render_family as rf, inventory

PROP = 'C19'


def cli_formats():
    """the --format choice lists of the English and Japanese sub-parsers, read from the text of depccg/argparse.py"""
    src = open(os.path.join(REPO, 'depccg', 'argparse.py'), encoding='utf-8').read()
    out = {}
    for lang, var in (('en', 'english_parser'), ('ja', 'japanese_parser')):
        m = re.search(var + r"\.add_argument\(\s*'-f',\s*'--format',.*?choices=\[(.*?)\]", src, re.S)
        if not m:
            raise Machinery('cannot find the --format choices of %s in depccg/argparse.py' % var)
        out[lang] = re.findall(r"'([^']+)'", m.group(1))
    return out


def label_pairs(lang):
    """for every (label, symbol) the real rule function returns on the test triples / seen rules: one (x, y, result)"""
    from depccg.cat import Category
    fb, _ = trees._grammar(lang)
    fn = 'rules.txt' if lang == 'en' else 'rules.ja.txt'
    found = {}
    pairs = []
    with open(os.path.join(REPO, 'tests', 'grammar', fn), encoding='utf-8') as f:
        for ln in f:
            p = ln.split()
            pairs.append((p[0], p[1]) if lang == 'en' else (p[1], p[2]))
    pairs += inventory.seen_rules(lang)[:1500]
    extra = {'en': [(',', 'S[ng]\\NP'), (',', 'S[dcl]/S[dcl]'), ('LRB', 'NP'), ('conj', 'NP\\NP'), (',', 'NP'), ('NP', '.'), ('S[dcl]', 'S[em]\\S[em]')],
             'ja': [('S[mod=nm,form=base,fin=f]', 'S[mod=nm,form=base,fin=t]')]}[lang]
    for a, b in extra + pairs:
        try:
            x, y = Category.parse(a), Category.parse(b)
        except Exception:
            continue
        for r in fb(x, y):
            key = (r.op_string, r.op_symbol)
            if key not in found:
                found[key] = (x, y, r)
    return found


def unary_steps(lang):
    from depccg.cat import Category
    _, fu = trees._grammar(lang)
    out = {}
    for a, _b in inventory.unary_rules(lang):
        x = Category.parse(a)
        for r in fu(x):
            out.setdefault((r.op_string, str(x), str(r.cat)), (x, r))
    return out


def small_tree(rng, lang, x, y, r, tokfn):
    w = trees.words_for(rng, 2, 0.3, exclude='/{}()<>' if lang == 'ja' else '()<>')
    return trees.binary(enc.enc_cat(r.cat), trees.leaf(enc.enc_cat(x), tokfn(rng, w[0])), trees.leaf(enc.enc_cat(y), tokfn(rng, w[1])),
                        r.op_string, r.op_symbol, r.head_is_left)


def real_placeholder(h):
    """the failure placeholder exactly as the real parser returns it for an unparseable sentence"""
    from depccg.cat import Category
    from depccg.types import Token, ScoringResult
    cats = [Category.parse('NP'), Category.parse('N')]
    toks = [Token.of_word('a'), Token.of_word('b')]
    res = h.parsing.run([toks], [ScoringResult(np.zeros((2, 2), dtype=np.float32), np.zeros((2, 3), dtype=np.float32))], cats, [Category.parse('S')],
                        lambda x, y: [], lambda x: [], max_step=1000)
    st = res[0]
    if not (len(st) == 1 and st[0].score == -float('inf')):
        raise Machinery('could not obtain the failure placeholder from the real parser')
    return st


def run(tier):
    t0 = time.time()
    rng = random.Random(seed())
    h = substrate.load(hook=False)
    import depccg.printer as P
    fmts = cli_formats()
    captured = []

    class Capture(object):
        @staticmethod
        def parse(jigg_xml, templates, ncores=1):
            captured.append(1)
            raise RuntimeError('ccg2lambda boundary')
    orig = P.ccg2lambda
    P.ccg2lambda = Capture
    events, metas = [], {}

    def add(ev, meta):
        ev['id'] = len(events) + 1
        events.append(ev)
        metas[ev['id']] = meta
    labels_seen = {'en': set(), 'ja': set()}
    n_batches = 0

    def render_all(lang, batch, real_extra=None, what=''):
        """batch: list of lists of tree dicts; real_extra: list of (position, [ScoredTree]) placeholders to splice in"""
        nonlocal n_batches
        n_batches += 1
        for f in fmts[lang]:
            real = trees.real_batch(batch, rng)
            if real_extra:
                for pos, st in real_extra:
                    real.insert(pos, copy.deepcopy(st))
            base = {'lang': lang, 'what': what, 'sentences': len(real)}
            if f in ('ccg2lambda', 'jigg_xml_ccg2lambda'):
                del captured[:]
                try:
                    P.to_string(real, format=f)
                    raised = ''
                except Exception as e:
                    raised = '' if captured else repr(e)[:200]
                if raised:
                    add({'e': 'raised', 'p': PROP, 'fmt': f}, dict(base, fmt=f, raised=raised))
                else:
                    add({'e': 'text_eq', 'p': PROP, 'fmt': f, 'what': 'ok', 'a': '', 'b': ''}, dict(base, fmt=f))
                continue
            if real_extra:
                # the other sentences must still be rendered: decode the document and compare the parsed sentences only
                try:
                    text = P.to_string(real, format=f)
                except Exception as e:
                    add({'e': 'raised', 'p': PROP, 'fmt': f}, dict(base, fmt=f, raised=repr(e)[:200]))
                    continue
                add({'e': 'text_eq', 'p': PROP, 'fmt': f, 'what': 'ok', 'a': '', 'b': ''}, dict(base, fmt=f, text=text[:800]))
                others = [s for i, s in enumerate(real) if i not in [p for p, _ in real_extra]]
                if others and (f in rf.SIMPLE or f in ('conll', 'deriv', 'jigg_xml', 'prolog')):
                    rf.render_events(PROP, f, lang, None, others, add, dict(base, note='same sentences without the failed one'))
            else:
                rf.render_events(PROP, f, lang, batch, real, add, base)
    try:
        n_chains = [0]
        for lang in ('en', 'ja'):
            rf.set_lang(lang)
            tokfn = trees.en_token if lang == 'en' else trees.ja_token
            lp = label_pairs(lang)
            us = unary_steps(lang)
            # one batch per binary label / unary entry
            for key, (x, y, r) in sorted(lp.items(), key=lambda kv: kv[0]):
                labels_seen[lang].add(key[1] if lang == 'ja' else key[0])
                render_all(lang, [[small_tree(rng, lang, x, y, r, tokfn)]], what='label %s %s' % key)
            for key, (x, r) in sorted(us.items()):
                labels_seen[lang].add(r.op_string)
                t = trees.unary(enc.enc_cat(r.cat), trees.leaf(enc.enc_cat(x), tokfn(rng, 'w')), r.op_string, r.op_symbol)
                render_all(lang, [[t]], what='unary %s %s -> %s' % key)
                # the search applies unary rules to the result of a unary rule as well: every chain the shipped table allows
                _, fu = trees._grammar(lang)
                for r2 in fu(r.cat):
                    t2 = trees.unary(enc.enc_cat(r2.cat), t, r2.op_string, r2.op_symbol)
                    render_all(lang, [[t2]], what='unary chain %s -> %s -> %s' % (key[1], key[2], r2.cat))
                    n_chains[0] += 1
            # random grammar-licensed derivations
            for _ in range(25 if tier == 'quick' else 400):
                b = trees.make_batch(rng, lang, awkward=0.3, licensed_p=1.0, exclude='/{}()' if lang == 'ja' else '()')
                lic = all(is_licensed(t) for s in b for t in s)
                if lic:
                    render_all(lang, b, what='random licensed batch')
            # the real failure placeholder: alone, and mixed with parsed sentences at every position
            ph = real_placeholder(h)
            render_all(lang, [], real_extra=[(0, ph)], what='placeholder alone')
            for _ in range(6 if tier == 'quick' else 60):
                b = [s for s in trees.make_batch(rng, lang, nsent=rng.randint(1, 3), awkward=0.2, licensed_p=1.0, exclude='/{}()' if lang == 'ja' else '()') if all(is_licensed(t) for t in s)]
                if not b:
                    continue
                pos = rng.randint(0, len(b))
                render_all(lang, b, real_extra=[(pos, ph)], what='placeholder at position %d of %d' % (pos, len(b) + 1))
    finally:
        P.ccg2lambda = orig
    need = {'en': {'fa', 'ba', 'fc', 'bx', 'gfc', 'gbx', 'conj', 'lp', 'rp', 'lex', 'tr'},
            'ja': {'>', '<', '>B', '<B1', '<B2', '<B3', '>Bx1', 'SSEQ', 'ADNext', 'ADNint', 'ADV0', 'ADV1'}}
    for lang in need:
        missing = need[lang] - labels_seen[lang]
        if missing:
            raise Machinery('vacuity: labels never produced by the real rule functions on the shipped data: %s %s' % (lang, sorted(missing)))
    # end-to-end: behaviours of Depccg.tla replayed through filter -> real parser -> every format -> reader
    from .. import pipeline
    from ..common import run_forked, Hang
    try:
        e2e_rej, e2e_cov = run_forked(pipeline.run_pipelines, 1200 if tier == 'quick' else 14400, PROP, tier, random.Random(seed() + 19))
    except Hang as e:
        e2e_rej, e2e_cov = [(PROP + '.pipeline_did_not_terminate', {'lang': '?', 'pipeline': {'hang': str(e)}, 'what': 'end-to-end pipeline replay'})], \
            {'states': 0, 'transitions': 0, 'parser_events': 0, 'render_and_read_events': 0, 'filter_events': 0, 'note': 'pipeline replay did not terminate'}
    # the command-line driver against Driver.tla (outside the listed properties: reported, never a violation)
    from .. import driver
    try:
        drv = run_forked(driver.conformance, 900 if tier == 'quick' else 7200, tier, random.Random(seed() + 190))
    except Hang as e:
        drv = {'states': 0, 'events': 0, 'deviations': {'DRIVER.run_did_not_terminate (%s)' % e: 1}, 'first_deviation': {}}
    except Machinery as e:
        # the driver is outside the listed properties: a failure of its own machinery is reported, it does not fail the C19 check
        drv = {'states': 0, 'events': 0, 'deviations': {}, 'first_deviation': {}, 'not_run': str(e)[:300]}
        print('NOTE driver conformance (outside the listed properties): not run (%s)' % str(e)[:200])
    if drv['deviations']:
        print('NOTE driver conformance (outside the listed properties): the real main deviates from Driver.tla: %s' % drv['deviations'])
    rejects, stats = validate('traces/RenderTrace.tla', events, 'c19', per_shard=400)
    demo = rf.render_binding_demo(events, 'c19')
    viols = []
    for (i, clause) in rejects:
        if clause.startswith(PROP + '.'):
            m = metas[i]
            viols.append(Violation(PROP, clause, '%s %s' % (m['lang'], m.get('what', '')), m))
    other = {}
    for clause, m in e2e_rej:
        if clause.startswith(PROP + '.'):
            viols.append(Violation(PROP, clause, 'pipeline %s %s' % (m['lang'], json.dumps(m['pipeline'], sort_keys=True)), m))
        else:
            other[clause] = other.get(clause, 0) + 1
    e2e_cov['clauses_of_other_properties_rejected'] = other
    cov = {'end_to_end_pipeline_replay': e2e_cov, 'command_line_driver_against_Driver_tla': drv, 'binding_demonstration': demo,
           'states': stats.states + e2e_cov['states'], 'transitions': stats.transitions + e2e_cov['transitions'],
           'traces_validated_against_impl': len(events) + e2e_cov['parser_events'] + e2e_cov['render_and_read_events'] + e2e_cov['filter_events'],
           'events': {'batches': n_batches, 'formats': fmts, 'labels_covered': {k: sorted(v) for k, v in labels_seen.items()}, 'events': len(events)},
           'samples': [{k: metas[i][k] for k in metas[i] if k in ('lang', 'fmt', 'what', 'text')} for i in (1, len(events) // 2, len(events))],
           'checker_cmd': stats.cmds[0] if stats.cmds else '',
           'rule': 'one derivation per (label, symbol) the real rule functions return on the test triples / seen rules / special pairs, one per shipped unary-table entry, random grammar-licensed batches, and the real failure placeholder alone and at every position of mixed batches; every format of the CLI choice lists'}
    return conclude(PROP, tier, viols, cov, t0, [
        'only grammar-licensed derivations are rendered (arbitrary labels such as unk are outside this property)',
        'the ccg2lambda formats are exercised up to the hand-over of the Jigg XML to the semantic parser (nltk is not installed)',
        'the placeholder is the object the real parser returns for an unparseable sentence',
    ])


def is_licensed(t):
    return bool(t.get('licensed'))
