"""Random generators of projected category values and of their decorated / flattened texts."""
from .enc import NOF

EN_BASES = ['S', 'N', 'NP', 'PP']
EN_FEATS = ['', '', 'dcl', 'X', 'nb', 'em', 'b', 'adj']
PUNCT = [',', '.', ';', ':', 'conj', 'LRB', 'RRB']
JA_KEYS = [('mod', ['nm', 'adn', 'adv', 'X1']), ('form', ['base', 'cont', 'stem', 'X2']), ('fin', ['f', 't', 'X3'])]
JA_NP = [('case', ['ga', 'o', 'ni', 'nc', 'X1']), ('mod', ['nm', 'X1', 'X2']), ('fin', ['f', 't', 'X2'])]


def uf(v):
    return {'t': 'U', 'v': v}


def tf(spec, rng):
    return {'t': 'T', 'kv': [{'k': k, 'v': v, 'x': v.startswith('X')} for k, v in ((k, rng.choice(vs)) for k, vs in spec)]}


def atom(b, f=NOF):
    return {'k': 'A', 'b': b, 'f': f}


def fun(l, s, r):
    return {'k': 'F', 'l': l, 's': s, 'r': r}


def rand_atom(rng, system):
    if system == 'en':
        if rng.random() < 0.12:
            return atom(rng.choice(PUNCT))
        return atom(rng.choice(EN_BASES), uf(rng.choice(EN_FEATS)))
    if rng.random() < 0.5:
        return atom('S', tf(JA_KEYS, rng))
    return atom('NP', tf(JA_NP, rng))


def rand_cat(rng, depth, system='en', slashes='/\\|'):
    if depth == 0 or rng.random() < 0.25:
        return rand_atom(rng, system)
    return fun(rand_cat(rng, depth - 1, system, slashes), rng.choice(slashes), rand_cat(rng, depth - 1, system, slashes))


def T(s, f=NOF):
    return {'s': s, 'f': f}


def show_toks(c):
    from .enc import feat_text
    if c['k'] == 'A':
        if c['f'] == NOF:
            return [T(c['b'])]
        return [T(c['b']), T('['), T(feat_text(c['f']), c['f']), T(']')]
    return operand_toks(c['l']) + [T(c['s'])] + operand_toks(c['r'])


def operand_toks(c):
    ts = show_toks(c)
    return [T('(')] + ts + [T(')')] if c['k'] == 'F' else ts


def _wrap(ts, rng):
    o, c = rng.choice(['()', '<>'])
    return [T(o)] + ts + [T(c)]


def deco_toks(c, rng, p=0.3):
    """a well-formed text of c with redundant round/angle brackets on random sub-terms"""
    if c['k'] == 'A':
        ts = show_toks(c)
    else:
        ts = deco_operand(c['l'], rng, p) + [T(c['s'])] + deco_operand(c['r'], rng, p)
    while rng.random() < p:
        ts = _wrap(ts, rng)
    return ts


def deco_operand(c, rng, p):
    ts = deco_toks(c, rng, p)
    if c['k'] == 'F':
        ts = _wrap(ts, rng)
    return ts


def flat_toks(c, rng):
    """canonical text with the brackets of ONE functor operand removed somewhere in the term (at the root or inside a
    bracketed sub-term), so that two slashes share a level; None when the value has no functor operand"""
    sites = []

    def collect(n, path):
        if n['k'] == 'A':
            return
        if n['l']['k'] == 'F':
            sites.append((path, 'l'))
        if n['r']['k'] == 'F':
            sites.append((path, 'r'))
        collect(n['l'], path + 'l')
        collect(n['r'], path + 'r')
    collect(c, '')
    if not sites:
        return None
    target = rng.choice(sites)

    def emit(n, path):
        if n['k'] == 'A':
            return show_toks(n)
        def side(child, which):
            ts = emit(child, path + which)
            if child['k'] == 'F' and (path, which) != target:
                return [T('(')] + ts + [T(')')]
            return ts
        return side(n['l'], 'l') + [T(n['s'])] + side(n['r'], 'r')
    return emit(c, '')
