"""Random generators of projected category values and of their decorated / flattened texts."""
from .enc import NOF

EN_BASES = ['S', 'N', 'NP', 'PP']
EN_FEATS = ['', '', 'dcl', 'X', 'nb', 'em', 'b', 'adj']
# names that other parts of depccg treat specially (the conjunct marker of the bank, atom and punctuation names used as feature values):
# only for the checks of the category text / value contract (C05, C13), never for rule oracles
EN_FEATS_WIDE = EN_FEATS + ['conj', 'conj', 'ng', 'pss', 'to', 'S', 'N', 'LRB', 'nb', 'X']
PUNCT = [',', '.', ';', ':', 'conj', 'LRB', 'RRB']
JA_KEYS = [('mod', ['nm', 'adn', 'adv', 'X1']), ('form', ['base', 'cont', 'stem', 'X2']), ('fin', ['f', 't', 'X3'])]
JA_NP = [('case', ['ga', 'o', 'ni', 'nc', 'X1']), ('mod', ['nm', 'X1', 'X2']), ('fin', ['f', 't', 'X2'])]


def uf(v):
    return {'t': 'U', 'v': v}


def tf(spec, rng):
    return {'t': 'T', 'kv': [{'k': k, 'v': v, 'x': v.startswith('X')} for k, v in ((k, rng.choice(vs)) for k, vs in spec)]}


def atom(b, f=NOF):
    return {'k': 'A', 'b': b, 'f': f}


def fun(l, s, r):
    return {'k': 'F', 'l': l, 's': s, 'r': r}


def rand_atom(rng, system, feats=None):
    if system == 'en':
        if rng.random() < 0.12:
            return atom(rng.choice(PUNCT))
        return atom(rng.choice(EN_BASES), uf(rng.choice(feats or EN_FEATS)))
    if rng.random() < 0.5:
        return atom('S', tf(JA_KEYS, rng))
    return atom('NP', tf(JA_NP, rng))


def rand_cat(rng, depth, system='en', slashes='/\\|', feats=None):
    if depth == 0 or rng.random() < 0.25:
        return rand_atom(rng, system, feats)
    return fun(rand_cat(rng, depth - 1, system, slashes, feats), rng.choice(slashes), rand_cat(rng, depth - 1, system, slashes, feats))


def T(s, f=NOF):
    return {'s': s, 'f': f}


def show_toks(c):
    from .enc import feat_text
    if c['k'] == 'A':
        if c['f'] == NOF:
            return [T(c['b'])]
        return [T(c['b']), T('['), T(feat_text(c['f']), c['f']), T(']')]
    return operand_toks(c['l']) + [T(c['s'])] + operand_toks(c['r'])


def operand_toks(c):
    ts = show_toks(c)
    return [T('(')] + ts + [T(')')] if c['k'] == 'F' else ts


def _wrap(ts, rng):
    o, c = rng.choice(['()', '<>'])
    return [T(o)] + ts + [T(c)]


def deco_toks(c, rng, p=0.3):
    """a well-formed text of c with redundant round/angle brackets on random sub-terms"""
    if c['k'] == 'A':
        ts = show_toks(c)
    else:
        ts = deco_operand(c['l'], rng, p) + [T(c['s'])] + deco_operand(c['r'], rng, p)
    while rng.random() < p:
        ts = _wrap(ts, rng)
    return ts


def deco_operand(c, rng, p):
    ts = deco_toks(c, rng, p)
    if c['k'] == 'F':
        ts = _wrap(ts, rng)
    return ts


def flat_toks(c, rng):
    """canonical text with the brackets of ONE functor operand removed somewhere in the term (at the root or inside a
    bracketed sub-term), so that two slashes share a level; None when the value has no functor operand"""
    sites = []

    def collect(n, path):
        if n['k'] == 'A':
            return
        if n['l']['k'] == 'F':
            sites.append((path, 'l'))
        if n['r']['k'] == 'F':
            sites.append((path, 'r'))
        collect(n['l'], path + 'l')
        collect(n['r'], path + 'r')
    collect(c, '')
    if not sites:
        return None
    target = rng.choice(sites)

    def emit(n, path):
        if n['k'] == 'A':
            return show_toks(n)
        def side(child, which):
            ts = emit(child, path + which)
            if child['k'] == 'F' and (path, which) != target:
                return [T('(')] + ts + [T(')')]
            return ts
        return side(n['l'], 'l') + [T(n['s'])] + side(n['r'], 'r')
    return emit(c, '')


# ------------------------------------------------------------------ rule-shaped pairs with a deep shared part
_EN_CONC = ['dcl', 'b', 'ng', 'thr', 'expl', 'em', 'pss']
_JA_CONC_S = [('mod', ['nm', 'adn', 'adv']), ('form', ['base', 'cont', 'stem']), ('fin', ['f', 't'])]
_JA_CONC_NP = [('case', ['ga', 'o', 'ni', 'to']), ('mod', ['nm', 'adn']), ('fin', ['f', 't'])]


def _conc_atom(rng, lang):
    if lang == 'en':
        return atom(rng.choice(['S', 'NP', 'PP', 'N']), uf(rng.choice(_EN_CONC)))
    if rng.random() < 0.5:
        return atom('S', tf(_JA_CONC_S, rng))
    return atom('NP', tf(_JA_CONC_NP, rng))


def _tree_of(atoms, rng, slashes):
    """a random binary bracketing of the atom list"""
    if len(atoms) == 1:
        return atoms[0]
    k = rng.randrange(1, len(atoms))
    return fun(_tree_of(atoms[:k], rng, slashes), rng.choice(slashes), _tree_of(atoms[k:], rng, slashes))


def _atoms_of(c, out):
    if c['k'] == 'F':
        _atoms_of(c['l'], out)
        _atoms_of(c['r'], out)
    else:
        out.append(c)
    return out


def _replace_atom(c, idx, new, counter):
    if c['k'] == 'F':
        l = _replace_atom(c['l'], idx, new, counter)
        r = _replace_atom(c['r'], idx, new, counter)
        return fun(l, c['s'], r)
    counter[0] += 1
    return new if counter[0] - 1 == idx else c


def _other_feature(a, rng, lang):
    """the same atom with a different concrete feature value (one value changed for three-part features)"""
    if lang == 'en':
        return atom(a['b'], uf(rng.choice([f for f in _EN_CONC if uf(f) != a['f']])))
    kv = [dict(p) for p in a['f']['kv']]
    i = rng.randrange(len(kv))
    spec = dict(_JA_CONC_S if a['b'] == 'S' else _JA_CONC_NP)
    kv[i]['v'] = rng.choice([v for v in spec[kv[i]['k']] if v != kv[i]['v']])
    return atom(a['b'], {'t': 'T', 'kv': kv})


def deep_pairs(rng, lang, n):
    """n pairs (x, y, note) shaped like the premises of the application / composition rules whose shared part b is a functor of 3-5
    atoms in a random bracketing; the occurrence of b in y differs from the one in x in the feature of exactly one atom
    (any position: head, middle, last), or in nothing (control)"""
    out = []
    sl = '/\\'
    for _ in range(n):
        k = rng.choice([3, 3, 4, 4, 5])
        b = _tree_of([_conc_atom(rng, lang) for _ in range(k)], rng, sl)
        atoms = _atoms_of(b, [])
        mode = rng.random()
        if lang == 'ja' and mode < 0.3:
            # generality twins: a short shared part whose three-part features carry variables on both sides, one side more general
            b = _tree_of([_conc_atom(rng, lang) for _ in range(rng.choice([1, 1, 2]))], rng, sl)
            def general(c, p):
                if c['k'] == 'F':
                    return fun(general(c['l'], p), c['s'], general(c['r'], p))
                kv = [dict(q) for q in c['f']['kv']]
                for j in range(3):
                    if rng.random() < p:
                        kv[j]['v'], kv[j]['x'] = 'X%d' % (j + 1), True
                return atom(c['b'], {'t': 'T', 'kv': kv})
            mid = general(b, 0.5)
            b, b2 = (mid, general(mid, 0.5)) if rng.random() < 0.5 else (general(mid, 0.5), mid)
            note = 'variable triples on both sides of the shared part'
        elif mode < 0.75:
            i = rng.randrange(len(atoms))
            b2 = _replace_atom(b, i, _other_feature(atoms[i], rng, lang), [0])
            note = 'atom %d of %d of the shared part differs' % (i, len(atoms))
        else:
            b2, note = b, 'identical shared part'
        a = _conc_atom(rng, lang)
        if rng.random() < 0.3:
            a = fun(a, rng.choice(sl), _conc_atom(rng, lang))
        c, d = _conc_atom(rng, lang), _conc_atom(rng, lang)
        # the parts outside b often repeat features of b (a substitution recorded for b then shows in the result)
        if rng.random() < 0.6:
            a = rng.choice(_atoms_of(b, []))
            if rng.random() < 0.4:
                a = fun(a, rng.choice(sl), rng.choice(_atoms_of(b, [])))
        if rng.random() < 0.6:
            c = rng.choice(_atoms_of(b2, []))
        if rng.random() < 0.4:
            d = rng.choice(_atoms_of(b2, []))
        shape = rng.randrange(6)
        if shape == 0:
            x, y = fun(a, '/', b), b2
        elif shape == 1:
            x, y = b2, fun(a, '\\', b)
        elif shape == 2:
            x, y = fun(a, '/', b), fun(b2, rng.choice(sl), c)
        elif shape == 3:
            x, y = fun(b2, rng.choice(sl), c), fun(a, '\\', b)
        elif shape == 4:
            x, y = fun(a, '/', b), fun(fun(b2, rng.choice(sl), c), rng.choice(sl), d)
        else:
            x, y = fun(fun(b2, rng.choice(sl), c), rng.choice(sl), d), fun(a, '\\', b)
        out.append((x, y, note))
    return out
