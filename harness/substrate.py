"""Execution substrate for the parser (DESIGN 2.2): compile the shim against $VERIF_REPO/depccg/parsing.h,
translate $VERIF_REPO/depccg/parsing.pyx with cythonlite, install the result as depccg._parsing so that the
real depccg/parsing.py runs on top of it."""
import hashlib
import os
import subprocess
import sys
import types

from .common import REPO, BUILD, VERIF, Machinery
from . import stubs  # noqa: F401

_handle = None


class Handle(object):
    pass


def build_shim():
    hdr = os.path.join(REPO, 'depccg', 'parsing.h')
    shim = os.path.join(VERIF, 'harness', 'shim', 'parsing_shim.cpp')
    h = hashlib.sha1(open(hdr, 'rb').read() + open(shim, 'rb').read()).hexdigest()[:16]
    os.makedirs(os.path.join(BUILD, 'shim'), exist_ok=True)
    lib = os.path.join(BUILD, 'shim', 'libdepccg_verif_%s.so' % h)
    if not os.path.exists(lib):
        tmp = lib + '.tmp%d' % os.getpid()
        p = subprocess.run(['g++', '-O1', '-std=c++11', '-shared', '-fPIC', '-I' + REPO, '-o', tmp, shim],
                           stdout=subprocess.PIPE, stderr=subprocess.STDOUT)
        if p.returncode != 0:
            raise Machinery('cannot compile depccg/parsing.h with the shim:\n' + p.stdout.decode()[-3000:])
        os.replace(tmp, lib)
    return lib


def load(hook=True):
    """-> handle with .parsing (module depccg.parsing), .mod (translated depccg._parsing), .rt (runtime)"""
    global _handle
    if _handle is not None:
        return _handle
    os.environ['DEPCCG_VERIF'] = '1'
    from . import cythonlite
    lib = build_shim()
    try:
        mod, src = cythonlite.load(os.path.join(REPO, 'depccg', 'parsing.pyx'), lib)
    except cythonlite.Untranslatable as e:
        raise Machinery(str(e))
    import depccg
    sys.modules['depccg._parsing'] = mod
    depccg._parsing = mod
    import depccg.parsing as P
    # shorten the 1 s polling of the Pool path without touching the global time module
    import time as _time
    P.time = types.SimpleNamespace(sleep=lambda s: _time.sleep(0.005))
    h = Handle()
    h.parsing, h.mod, h.rt, h.src, h.lib = P, mod, mod._rt, src, lib
    if hook:
        if not h.rt.hook_on():
            raise Machinery('pop hook could not be installed (DEPCCG_VERIF guard)')
    _handle = h
    return h
