"""End-to-end conformance: behaviours of spec/Depccg.tla (Filter? -> Parse -> Render(f) -> ReadBack?) replayed through the
real pipeline (apply_category_filters -> depccg.parsing.run -> to_string -> reader); every stage is logged with the event
format of its own trace specification, and the data handed from stage to stage are the real objects."""
import json
import random

import numpy as np

from .common import NCPU, Machinery
from .tlc import run_tlc, require_clean
from .trace import validate
from . import enc, trees, lexers, substrate, render_family as rf, parser_family as pf
from .checks import c17

READERS = {'auto': ('read_auto', '.auto'), 'ptb': ('read_ptb', '.ptb'), 'xml': ('read_xml', '.xml'), 'jigg_xml': ('read_jigg_xml', '.jigg.xml'), 'ja': (None, '.ja')}


def tlc_pipelines():
    r = require_clean(run_tlc('Depccg.tla', 'Depccg.cfg', workers=NCPU, timeout=600), 'Depccg')
    if r.violated:
        raise Machinery('Depccg.tla: %s violated' % r.violated)
    vecs = sorted(set(r.tagged('VEC')))
    return [json.loads(v) for v in vecs], r


def run_pipelines(prop, tier, rng):
    """-> (violations-as-(clause, meta) list, coverage dict)"""
    from depccg.types import Token, ScoringResult
    import depccg.tools.reader as R
    from depccg.tools.ja.reader import read_ccgbank
    h = substrate.load(hook=True)
    pf._strict[0] = False       # C19 is judged on what is rendered; score clauses belong to C09
    vecs, mr = tlc_pipelines()
    use = vecs if tier == 'thorough' else rng.sample(vecs, 60)
    ev_filter, ev_parse, ev_render = [], [], []
    metas = {}
    counter = [0]

    def adder(lst):
        def add(ev, meta):
            counter[0] += 1
            ev['id'] = counter[0]
            lst.append(ev)
            metas[counter[0]] = meta
        return add
    add_f, add_p, add_r = adder(ev_filter), adder(ev_parse), adder(ev_render)
    done = 0
    for v in use:
        lang = 'ja' if v['fmt'] == 'ja' else ('en' if v['fmt'] in ('xml', 'auto_extended') else rng.choice(['en', 'ja']))
        rf.set_lang(lang)
        # a grammar and sentences whose parse / failure pattern is the one the behaviour asks for
        g = None
        for _ in range(40):
            g = pf.real_grammar(rng, lang, 3, seen=False)
            if g is not None:
                break
        if g is None:
            continue
        K = len(g['lex'])
        idx = {c: i + 1 for i, c in enumerate(g['allc'])}
        cfg = {'pen8': rng.choice([0, 1]), 'k': v['nbest'], 'prune': 50, 'usebeta': True, 'b16': 39, 'maxstep': 10 ** 7}
        vocab = ['v%d' % i for i in range(6)]
        cdict = {w: sorted(rng.sample(range(1, K + 1), rng.randint(1, K))) for w in rng.sample(vocab, 3)} if v['dict'] else {}
        chosen = []
        for want_fail in v['fails']:
            found = None
            for _ in range(60):
                n = rng.randint(1, 3)
                words = [rng.choice(vocab) for _ in range(n)]
                tag8, dep8 = pf.make_scores(rng, n, K, 'small')
                # the filter as the specification defines it, to classify the sentence before the real run
                t8 = [[(-32768 if (words[i] in cdict and (c + 1) not in cdict[words[i]]) else tag8[i][c]) for c in range(K)] for i in range(n)]
                toks = [Token.of_word(w) for w in words]
                res = h.parsing.run([toks], [ScoringResult(np.array(t8, dtype=np.float32) / 8, np.array(dep8, dtype=np.float32) / 8)], list(g['lex']),
                                    list(g['roots']), g['bin'], g['un'], unary_penalty=cfg['pen8'] / 8.0, beta=np.exp(-cfg['b16'] / 16.0), use_beta=True,
                                    pruning_size=50, nbest=1, max_step=10 ** 7)[0]
                failed = res[0].score == -float('inf')
                if failed == want_fail:
                    found = (words, tag8, dep8)
                    break
            if found is None:
                break
            chosen.append(found)
        if len(chosen) != len(v['fails']):
            continue
        done += 1
        base = {'pipeline': v, 'lang': lang, 'lexicon': [str(c) for c in g['lex']], 'sentences': [c[0] for c in chosen], 'dict': cdict}
        # ---- stage 1: the real filter
        doc = [[Token.of_word(w) for w in c[0]] for c in chosen]
        scores = [ScoringResult(np.array(c[1], dtype=np.float32) / 8, np.array(c[2], dtype=np.float32) / 8) for c in chosen]
        if v['dict']:
            tag_in = [c17.proj(s.tag_scores) for s in scores]
            dep_in = [c17.proj(s.dep_scores) for s in scores]
            ev = {'e': 'filter', 'words': [c[0] for c in chosen], 'dict': cdict, 'ncat': K, 'tag_in': tag_in, 'dep_in': dep_in, 'raised': False,
                  'tag_out': tag_in, 'dep_out': dep_in, 'words_out': [c[0] for c in chosen]}
            try:
                doc, scores = h.parsing.apply_category_filters(doc, scores, list(g['lex']), {w: [g['lex'][c - 1] for c in cs] for w, cs in cdict.items()})
                ev['tag_out'] = [c17.proj(s.tag_scores) for s in scores]
                ev['dep_out'] = [c17.proj(s.dep_scores) for s in scores]
                ev['words_out'] = [[t.word for t in s] for s in doc]
            except Exception as e:
                ev['raised'] = True
            add_f(ev, dict(base, stage='filter'))
        # ---- stage 2: the real parser on what the filter returned (whole batch, then logged per sentence)
        beta = float(np.exp(-cfg['b16'] / 16.0))
        h.rt.pops_clear()
        results = h.parsing.run(doc, scores, list(g['lex']), list(g['roots']), g['bin'], g['un'], unary_penalty=cfg['pen8'] / 8.0, beta=beta, use_beta=True,
                                pruning_size=50, nbest=v['nbest'], max_step=10 ** 7)
        for si, (res, sc, toks) in enumerate(zip(results, scores, doc)):
            tag8 = [[(-32768 if x < -1e30 else int(round(float(x) * 8))) for x in row] for row in sc.tag_scores]
            dep8 = [[int(round(float(x) * 8)) for x in row] for row in sc.dep_scores]
            failed = len(res) >= 1 and res[0].score == -float('inf')
            ph = {'n': len(res), 'neginf': failed and all(r.score == -float('inf') for r in res), 'leaf': failed and all(r.tree.is_leaf for r in res)}
            trs = [] if failed else [{'score': pf._exact8(r.score, 'score'), 'tree': pf.enc_tree(r.tree, idx, [0])} for r in res]
            bin_t, un_t = [], []
            for x in g['allc']:
                ur = g['un'](x)
                if ur:
                    un_t.append({'x': idx[x], 'res': [{'c': idx.get(r.cat, 0), 'lab': r.op_string, 'sym': r.op_symbol} for r in ur]})
                for y in g['allc']:
                    rs = g['bin'](x, y)
                    if rs:
                        bin_t.append({'x': idx[x], 'y': idx[y], 'res': [{'c': idx.get(r.cat, 0), 'lab': r.op_string, 'sym': r.op_symbol, 'hl': bool(r.head_is_left)} for r in rs]})
            add_p({'N': len(toks), 'K': K, 'C': len(g['allc']), 'tag': tag8, 'dep': dep8, 'roots': [idx[c] for c in g['roots']], 'bin': bin_t, 'un': un_t,
                   'pen': cfg['pen8'], 'k': v['nbest'], 'kcap': min(v['nbest'], 3), 'prune': 50, 'usebeta': True, 'b16': cfg['b16'], 'uniform': True,
                   'words': [t.word for t in toks], 'failed': failed, 'ph': ph, 'trees': trs, 'prios': [], 'npops': 0, 'maxstep': 10 ** 7},
                  dict(base, stage='parse', sentence=si))
        # ---- stage 3: the real encoder on the parser's own result objects
        text = rf.render_events(prop, v['fmt'], lang, None, results, add_r, dict(base, stage='render'))
        # ---- stage 4: the real reader
        if v['read'] and text is not None:
            if v['fmt'] == 'ja':
                reader, suffix, tr = read_ccgbank, '.ja', (lambda t: '\n'.join(ln for ln in t.split('\n') if not ln.startswith('ID=')))
            else:
                reader, suffix, tr = getattr(R, READERS[v['fmt']][0]), READERS[v['fmt']][1], None
            if not ((v['fmt'] == 'xml' and lang != 'en') or (v['fmt'] == 'jigg_xml' and lang != 'ja')):
                rprop = {'auto': 'C08', 'ptb': 'C20', 'ja': 'C20', 'xml': 'C15', 'jigg_xml': 'C15'}[v['fmt']]
                rf.read_back(rprop, v['fmt'], lang, results, add_r, dict(base, stage='read'), text=text, reader=reader, suffix=suffix, transform=tr)
    out = []
    stats_all = {'states': mr.distinct, 'transitions': mr.generated}
    for module, evs, nm, env in (('traces/CatDictTrace.tla', ev_filter, 'e2e-filter', 'aux'), ('traces/ParserTrace.tla', ev_parse, 'e2e-parse', None),
                                 ('traces/RenderTrace.tla', ev_render, 'e2e-render', None)):
        if not evs:
            continue
        e = None
        if env == 'aux':
            import os
            from .common import scratch
            from . import inventory
            aux = os.path.join(scratch('e2eaux'), 'aux.json')
            with open(aux, 'w') as f:
                json.dump({'targets_en': [enc.lex_cat(s)[0] for s in inventory.targets('en')[:3]]}, f)
            e = {'AUX_FILE': aux}
        rej, st = validate(module, evs, nm, per_shard=60, env=e, timeout=2400)
        stats_all['states'] += st.states
        stats_all['transitions'] += st.transitions
        for i, cl in rej:
            out.append((cl, metas[i]))
    cov = {'pipelines_from_tlc': len(vecs), 'pipelines_replayed': done, 'filter_events': len(ev_filter), 'parser_events': len(ev_parse),
           'render_and_read_events': len(ev_render), 'states': stats_all['states'], 'transitions': stats_all['transitions'],
           'tlc_run': {'cfg': 'Depccg.cfg', 'distinct': mr.distinct, 'generated': mr.generated}}
    return out, cov
