"""Code -> spec: validate recorded events with a TLA+ trace specification (DESIGN 4.1)."""
import os
import concurrent.futures as cf

from .common import scratch, Machinery, NCPU
from .tlc import run_tlc, write_ndjson, require_clean


import threading
_retry_lock = threading.Lock()


class TraceStats(object):
    def __init__(self):
        self.states = 0
        self.transitions = 0
        self.events = 0
        self.runs = 0
        self.wall = 0.0
        self.cmds = []

    def add(self, r, n):
        self.states += r.distinct
        self.transitions += max(r.generated - 1, 0)
        self.events += n
        self.runs += 1
        self.wall += r.wall
        if len(self.cmds) < 2:
            self.cmds.append(r.cmd)


def validate(module, events, name, per_shard=20000, timeout=1800, env=None, cfg=None, stats=None, xss='256m', group=None):
    """events: list of dicts, each with a unique integer 'id'.  Returns list of (id, clause)."""
    if stats is None:
        stats = TraceStats()
    if not events:
        return [], stats
    d = scratch(name)
    nshards = max(1, min(NCPU, (len(events) + per_shard - 1) // per_shard))
    # contiguous shards, at most per_shard... more shards than CPUs are queued
    size = (len(events) + nshards - 1) // nshards
    size = min(size, per_shard)
    if group is None:
        shards = [events[i:i + size] for i in range(0, len(events), size)]
    else:
        # stateful traces: a shard boundary may only fall where the group id changes
        shards, cur = [], []
        for ev in events:
            # (group 0 / absent marks stateless events: a boundary may fall anywhere between them)
            if len(cur) >= size and (ev.get(group) != cur[-1].get(group) or not ev.get(group)):
                shards.append(cur)
                cur = []
            cur.append(ev)
        if cur:
            shards.append(cur)
    paths = []
    for i, sh in enumerate(shards):
        p = os.path.join(d, 'trace%03d.ndjson' % i)
        write_ndjson(p, sh)
        paths.append(p)

    def one(i):
        e = {'TRACE_FILE': paths[i]}
        if env:
            e.update(env)
        # NCPU trace checkers run side by side: each gets a bounded heap (the machine has 62 GB) and is retried once alone with a
        # large heap if the JVM was killed or ran out of memory
        r = run_tlc(module, cfg=cfg, workers=1, env=e, timeout=timeout, xss=xss, xmx='3g')
        if r.rc in (-9, 137) or 'OutOfMemoryError' in r.out:
            with _retry_lock:
                r = run_tlc(module, cfg=cfg, workers=1, env=e, timeout=timeout, xss=xss, xmx='16g')
        return i, r

    rejects = []
    with cf.ThreadPoolExecutor(max_workers=NCPU) as ex:
        for i, r in ex.map(one, range(len(shards))):
            require_clean(r, '%s shard %d' % (name, i))
            if r.postcondition_failed or r.rc != 0:
                raise Machinery('%s shard %d: trace not fully consumed (rc=%s)\n%s' % (name, i, r.rc, r.out[-2000:]))
            stats.add(r, len(shards[i]))
            for (eid, clause, key) in r.rejects():
                rejects.append((eid, clause))
    for p in paths:
        try:
            os.remove(p)
        except OSError:
            pass
    mach = [x for x in rejects if x[1].startswith('MACHINERY.')]
    if mach:
        raise Machinery('%s: trace generator inconsistent with the specification: %r' % (name, mach[:5]))
    return rejects, stats


def binding_demo(module, events, corruptors, name, env=None, group=None, limit=12):
    """Demonstrate that the trace specification is bound to the recorded fields: for each corruptor, copies of up to
    `limit` accepted events are corrupted in one logged field and validated again; at least one REJECT is required.
    corruptors: list of (label, fn) with fn(event_copy) -> event or None (not applicable).  Returns {label: [clauses]}."""
    import copy
    out = {}
    for label, fn in corruptors:
        bad = []
        for ev in events:
            if len(bad) >= limit:
                break
            c = fn(copy.deepcopy(ev))
            if c is not None:
                bad.append(c)
        if not bad:
            raise Machinery('binding demonstration %s/%s: no event to corrupt' % (name, label))
        if group:
            # keep stateful context: prepend the events of the same groups that precede the corrupted ones
            gs = {b.get(group) for b in bad}
            ctx = [e for e in events if e.get(group) in gs]
            ids = {b['id'] for b in bad}
            seq = [next(b for b in bad if b['id'] == e['id']) if e['id'] in ids else e for e in ctx]
        else:
            seq = bad
        rej, _ = validate(module, seq, name + '-demo', per_shard=100000, env=env, group=group)
        hit = sorted({c for i, c in rej if i in {b['id'] for b in bad}})
        if not hit:
            raise Machinery('binding demonstration %s/%s: corrupted events were accepted (trace specification does not constrain this field)' % (name, label))
        out[label] = hit
    return out
