"""Driver of the rendering family: real encoders on generated batches, lexed into document models, and
events for traces/RenderTrace.tla."""
import json
import random
import time

from . import enc, trees, lexers, substrate
from .common import Machinery

EMPTYX = lexers.node('L')
SIMPLE = {'auto': lexers.lex_auto, 'auto_extended': lexers.lex_auto_extended, 'ptb': lexers.lex_ptb, 'ja': lexers.lex_ja,
          'xml': lexers.lex_xml, 'json': lexers.lex_json, 'html': lexers.lex_html}
FORMATS_EN = ['auto', 'auto_extended', 'conll', 'deriv', 'html', 'json', 'ptb', 'xml', 'jigg_xml', 'prolog']
FORMATS_JA = ['auto', 'auto_extended', 'conll', 'deriv', 'html', 'json', 'ptb', 'xml', 'jigg_xml', 'prolog', 'ja']


def lower_table(d):
    """<<text, lower-cased text>> for every base name and feature value of a derivation (TLC cannot change case)"""
    out = {}

    def cat(c):
        if c['k'] == 'A':
            out[c['b']] = c['b'].lower()
            if c['f']['t'] == 'T':
                for e in c['f']['kv']:
                    out[e['v']] = e['v'].lower()
        else:
            cat(c['l'])
            cat(c['r'])

    def rec(n):
        cat(n['cat'])
        for k in n['kids']:
            rec(k)
    rec(d)
    return [[k, v] for k, v in sorted(out.items())]


def set_lang(lang):
    import depccg.lang
    import logging
    logging.getLogger('depccg.lang').setLevel(logging.WARNING)
    depccg.lang.set_global_language_to(lang)


def render_events(prop, fmt, lang, batch_dicts, real, add, meta_base):
    """render `real` (List[List[ScoredTree]]) in fmt with the real to_string, lex, emit events through add(ev, meta)"""
    from depccg.printer import to_string
    projs = [[trees.proj_real(st.tree) for st in sent] for sent in real]
    expect = [[s, t] for s, sent in enumerate(real, 1) for t in range(1, len(sent) + 1)]
    flat = [d for sent in projs for d in sent]
    try:
        text = to_string(real, format=fmt)
    except Exception as e:
        add({'e': 'raised', 'p': prop, 'fmt': fmt}, dict(meta_base, fmt=fmt, raised=repr(e)[:200]))
        return None
    meta = dict(meta_base, fmt=fmt, text=text[:1500])
    try:
        if fmt in SIMPLE:
            doc = SIMPLE[fmt](text)
            if fmt == 'html':
                recs = [{'sent': s['sent'], 'tid': i, 'tree': t['tree']} for s in doc for i, t in enumerate(s['trees'], 1)]
            else:
                recs = doc
            got = [[r['sent'], r.get('tid', 0)] for r in recs]
            if fmt in ('auto', 'auto_extended', 'ptb', 'ja'):
                # headed formats number by sentence only: the n-best trees of a sentence repeat its number
                cnt, g2 = {}, []
                for r in recs:
                    cnt[r['sent']] = cnt.get(r['sent'], 0) + 1
                    g2.append([r['sent'], cnt[r['sent']]])
                got = g2
            add({'e': 'numbering', 'p': prop, 'fmt': fmt, 'expect': expect, 'got': got}, meta)
            for d, r in zip(flat, recs):
                add({'e': 'tree', 'p': prop, 'fmt': fmt, 'd': d, 'x': r['tree']}, meta)
        elif fmt == 'conll':
            doc = lexers.lex_conll(text)
            cnt, got = {}, []
            for r in doc:
                cnt[r['sent']] = cnt.get(r['sent'], 0) + 1
                got.append([r['sent'], cnt[r['sent']]])
            add({'e': 'numbering', 'p': prop, 'fmt': fmt, 'expect': expect, 'got': got}, meta)
            for d, r in zip(flat, doc):
                frag = ' '.join(row['frag'] for row in r['rows'])
                try:
                    x = lexers.lex_auto_line(frag)
                except lexers.LexError:
                    x = EMPTYX
                add({'e': 'tree', 'p': prop, 'fmt': fmt, 'd': d, 'rows': [{k: row[k] for k in ('id', 'wordcp', 'lemma', 'pos', 'pos2', 'head', 'cat')} for row in r['rows']], 'x': x}, meta)
        elif fmt == 'deriv':
            doc = lexers.lex_deriv(text)
            cnt, got = {}, []
            for r in doc:
                cnt[r['sent']] = cnt.get(r['sent'], 0) + 1
                got.append([r['sent'], cnt[r['sent']]])
            add({'e': 'numbering', 'p': prop, 'fmt': fmt, 'expect': expect, 'got': got}, meta)
            for d, r in zip(flat, doc):
                add({'e': 'tree', 'p': prop, 'fmt': fmt, 'd': d, 'rec': {'cats': r['cats'], 'words': r['words'], 'steps': r['steps']}}, meta)
        elif fmt == 'jigg_xml':
            doc = lexers.lex_jigg(text)
            got = [[s, t] for s, sent in enumerate(doc, 1) for t in range(1, len(sent['ccgs']) + 1)]
            add({'e': 'numbering', 'p': prop, 'fmt': fmt, 'expect': expect, 'got': got}, meta)
            if prop == 'C15':
                # C15 states the self-containedness of a sentence element: ids over all its n-best ccg elements
                for sent in doc:
                    add({'e': 'jsent', 'p': prop, 'fmt': fmt, 'spanids': [sp['id'] for c in sent['ccgs'] for sp in c['spans']], 'ccgids': [c['id'] for c in sent['ccgs']]}, meta)
            for sent_d, sent in zip(projs, doc):
                for i, (d, ccg) in enumerate(zip(sent_d, sent['ccgs'])):
                    add({'e': 'tree', 'p': prop, 'fmt': fmt, 'd': d, 'ccg': ccg, 'toks': sent['tokens'], 'usesym': lang == 'ja', 'first': i == 0}, meta)
        elif fmt == 'prolog':
            doc = lexers.lex_prolog(text)
            cnt, got = {}, []
            for c in doc['clauses']:
                cnt[c['sent']] = cnt.get(c['sent'], 0) + 1
                got.append([c['sent'], cnt[c['sent']]])
            add({'e': 'numbering', 'p': prop, 'fmt': fmt, 'expect': expect, 'got': got}, meta)
            for d, c in zip(flat, doc['clauses']):
                add({'e': 'tree', 'p': prop, 'fmt': fmt, 'lang': lang, 'd': d, 'term': c['term'], 'lower': lower_table(d)}, meta)
        else:
            raise Machinery('render_events: no decoder wired for %s' % fmt)
    except lexers.LexError as e:
        add({'e': 'unreadable', 'p': prop, 'fmt': fmt}, dict(meta, lexerr=str(e)[:200]))
    return text


# ------------------------------------------------------------------ reading back with the real readers
def with_gr(d, lang):
    """attach to every node gr = what the real binary rule function returns for the children's categories"""
    fb, _ = trees._grammar(lang)
    out = dict(d)
    out['kids'] = [with_gr(k, lang) for k in d['kids']]
    out['gr'] = []
    if d['k'] == 'B':
        l, r = enc.dec_cat(d['kids'][0]['cat']), enc.dec_cat(d['kids'][1]['cat'])
        out['gr'] = [{'c': enc.enc_cat(x.cat), 'lab': x.op_string, 'sym': x.op_symbol, 'hl': bool(x.head_is_left)} for x in fb(l, r)]
    return out


def proj_read(tree):
    d = trees.proj_real(tree)

    def fill(n):
        n['gr'] = []
        for k in n['kids']:
            fill(k)
    fill(d)
    return d


def write_tmp(text, suffix):
    import os
    from .common import scratch
    p = os.path.join(scratch('files'), 'doc%d%s' % (os.getpid(), suffix))
    with open(p, 'w', encoding='utf-8') as f:
        f.write(text)
    return p


def read_back(prop, fmt, lang, real, add, meta_base, text=None, reader=None, suffix='.auto', transform=None):
    """render with the real encoder (unless text is given), read with the real reader, emit read events.
    Returns (text, [trees read]) or (text, None)."""
    from depccg.printer import to_string
    projs = [with_gr(trees.proj_real(st.tree), lang) for sent in real for st in sent]
    if text is None:
        try:
            text = to_string(real, format=fmt)
        except Exception as e:
            add({'e': 'raised', 'p': prop, 'fmt': fmt}, dict(meta_base, fmt=fmt, raised=repr(e)[:200]))
            return None, None
    ftext = transform(text) if transform else text
    meta = dict(meta_base, fmt=fmt, text=ftext[:1500])
    path = write_tmp(ftext, suffix)
    try:
        results = list(reader(path))
    except Exception as e:
        add({'e': 'reader_raised', 'p': prop, 'fmt': fmt}, dict(meta, reader_raised=repr(e)[:300]))
        return text, None
    add({'e': 'count', 'p': prop, 'fmt': fmt, 'expect': len(projs), 'got': len(results)}, meta)
    for d, res in zip(projs, results):
        try:
            r = proj_read(res.tree)
        except Exception as e:
            add({'e': 'reader_raised', 'p': prop, 'fmt': fmt}, dict(meta, reader_raised='reader returned an object that is not a tree of categories: ' + repr(e)[:200]))
            continue
        add({'e': 'read', 'p': prop, 'fmt': fmt, 'd': d, 'r': r}, meta)
        # the token list a reader returns next to a tree is that tree's own leaf tokens, in order (judged once the whole file has been read)
        if getattr(res, 'tokens', None) is not None:
            def light(tok):
                return [{'k': a['k'], 'cp': a['cp']} for a in tok]
            try:
                lst = [light(trees.enc_token(dict(t))) for t in res.tokens]
            except Exception as e:
                add({'e': 'reader_raised', 'p': prop, 'fmt': fmt}, dict(meta, reader_raised='token list is not a list of tokens: ' + repr(e)[:200]))
                continue
            add({'e': 'rtoks', 'p': prop, 'fmt': fmt, 'leaf': [light(x['tok']) for x in trees.leaves_of(r)], 'list': lst}, meta)
    return text, results


def render_binding_demo(events, name):
    """corrupt one field of accepted rendering events (a word code point, a head flag, a category text)"""
    from .trace import binding_demo

    def word(e):
        if e['e'] == 'tree' and 'x' in e and e.get('fmt') not in ('conll', 'deriv', 'jigg_xml', 'prolog'):
            n = e['x']
            while n['kids']:
                n = n['kids'][0]
            if n['wordcp']:
                n['wordcp'] = n['wordcp'] + [33]
                return e

    def cat(e):
        if e['e'] == 'tree' and 'x' in e and e.get('fmt') not in ('conll', 'deriv', 'jigg_xml', 'prolog'):
            e['x']['cat'] = e['x']['cat'] + '?'
            return e

    def readcat(e):
        if e['e'] == 'read' and e['r']['kids']:
            e['r']['kids'] = e['r']['kids'][::-1] if len(e['r']['kids']) == 2 and e['r']['kids'][0] != e['r']['kids'][1] else None
            return e if e['r']['kids'] else None
    cs = []
    if any(word(__import__('copy').deepcopy(e)) for e in events[:4000]):
        cs += [('leaf_word_changed', word), ('root_category_changed', cat)]
    if any(e['e'] == 'read' and len(e['r']['kids']) == 2 for e in events):
        cs.append(('children_of_read_tree_swapped', readcat))
    return binding_demo('traces/RenderTrace.tla', events, cs, name)
