"""Shared plumbing: paths, seeds, evidence, known findings, verdict/exit handling."""
import json
import os
import sys
import time
import hashlib

VERIF = os.path.dirname(os.path.dirname(os.path.abspath(__file__)))
REPO = os.environ.get('VERIF_REPO', '/repo')
BUILD = os.path.join(VERIF, 'build')
SPEC = os.path.join(VERIF, 'spec')
EVIDENCE = os.path.join(VERIF, 'evidence')
KNOWN = os.path.join(VERIF, 'known_findings.json')
NCPU = int(os.environ.get('VERIF_CPUS', os.cpu_count() or 4))


class Machinery(Exception):
    """The checking machinery itself failed (exit status 2, never a VIOLATION)."""


def seed():
    try:
        return int(os.environ.get('VERIF_SEED', '1'))
    except ValueError:
        return 1


def ensure_dirs():
    for d in (BUILD, EVIDENCE):
        os.makedirs(d, exist_ok=True)


def scratch(name):
    d = os.path.join(BUILD, 'run', '%s-%d' % (name, os.getpid()))
    os.makedirs(d, exist_ok=True)
    return d


def repo_rev():
    import subprocess
    try:
        rev = subprocess.check_output(['git', '-C', REPO, 'rev-parse', 'HEAD'], stderr=subprocess.DEVNULL).decode().strip()
        dirty = subprocess.check_output(['git', '-C', REPO, 'status', '--porcelain', '-uno'], stderr=subprocess.DEVNULL).decode().strip()
        return rev + ('+dirty' if dirty else '')
    except Exception:
        return 'unknown'


class Violation(object):
    """One rejected event: property, failing clause, discriminating key, detail for the replay file."""

    def __init__(self, prop, clause, key, detail=None):
        self.prop, self.clause, self.key, self.detail = prop, clause, str(key), detail

    def as_json(self):
        return {'property': self.prop, 'clause': self.clause, 'key': self.key, 'detail': self.detail}


def load_known():
    if not os.path.exists(KNOWN):
        return []
    with open(KNOWN) as f:
        return json.load(f).get('findings', [])


def match_known(v, known):
    """A violation is covered by an *open* entry when property and clause are equal and the
    entry's key pattern matches the violation key (exact string, or a list of exact strings,
    or {'prefix': ...}).  Fixed entries never match."""
    for k in known:
        if k.get('status') != 'open' or k.get('property') != v.prop:
            continue
        sig = k.get('signature', {})
        cl = sig.get('clause', '')
        if not (cl == v.clause or (cl.endswith('*') and v.clause.startswith(cl[:-1]))):
            continue
        ks = sig.get('key')
        if ks is None:
            continue
        if isinstance(ks, str) and ks == v.key:
            return k
        if isinstance(ks, list) and v.key in ks:
            return k
        if isinstance(ks, dict) and 'prefix' in ks and v.key.startswith(ks['prefix']):
            return k
    return None


def write_evidence(prop, tier, coverage, wall_s, violations, assumptions, level='model_checking'):
    ensure_dirs()
    ev = {
        'property_id': prop,
        'tier': tier,
        'seed': seed(),
        'level': level,
        'coverage': coverage,
        'assumptions': assumptions,
        'wall_s': round(wall_s, 2),
        'violations': violations,
        'repo_rev': repo_rev(),
    }
    # evidence/ describes runs against /repo itself; runs against a scratch copy (mutants, seeded changes) are kept apart
    evdir = EVIDENCE if os.path.realpath(REPO) == '/repo' else os.path.join(BUILD, 'evidence_scratch_repo')
    os.makedirs(evdir, exist_ok=True)
    path = os.path.join(evdir, prop + '.json')
    tmp = path + '.tmp%d' % os.getpid()
    with open(tmp, 'w') as f:
        json.dump(ev, f, indent=1, ensure_ascii=True, sort_keys=True)
        f.write('\n')
    os.replace(tmp, path)
    return path


def conclude(prop, tier, violations, coverage, t0, assumptions, replay_extra=None):
    """Print KNOWN-FINDING / VIOLATION lines, write evidence and replay file, return exit code."""
    known = load_known()
    new, seen_known = [], {}
    for v in violations:
        k = match_known(v, known)
        if k is None:
            new.append(v)
        else:
            seen_known.setdefault(k['id'], (k, 0))
            seen_known[k['id']] = (k, seen_known[k['id']][1] + 1)
    for kid, (k, n) in sorted(seen_known.items()):
        print('KNOWN-FINDING: property=%s %s [%s; %d rejected events]' % (prop, k['what'], kid, n))
    coverage = dict(coverage)
    coverage['known_finding_events'] = sum(n for _, n in seen_known.values())
    coverage['rejected_events'] = len(violations)
    write_evidence(prop, tier, coverage, time.time() - t0, len(new), assumptions)
    if new:
        rdir = os.path.join(BUILD, 'replay')
        os.makedirs(rdir, exist_ok=True)
        path = os.path.join(rdir, '%s-%s-seed%d.json' % (prop, tier, seed()))
        by_clause = {}
        for v in new:
            by_clause.setdefault(v.clause, []).append(v)
        with open(path, 'w') as f:
            json.dump({'property': prop, 'tier': tier, 'seed': seed(), 'repo': REPO, 'repo_rev': repo_rev(),
                       'clauses': {c: len(vs) for c, vs in by_clause.items()},
                       'violations': [v.as_json() for vs in by_clause.values() for v in vs[:25]],
                       'extra': replay_extra}, f, indent=1, ensure_ascii=True)
        for c, vs in sorted(by_clause.items()):
            print('  rejected: clause=%s count=%d first_key=%s' % (c, len(vs), vs[0].key[:200]))
        print('VIOLATION property=%s replay=%s' % (prop, path))
        return 1
    print('OK property=%s tier=%s held on everything explored' % (prop, tier))
    return 0


def sha(s):
    return hashlib.sha1(s.encode() if isinstance(s, str) else s).hexdigest()[:12]


class Hang(Exception):
    """the code under test did not return within the allowed time (reported as a violation by the caller)"""


def run_forked(fn, timeout, *args, **kwargs):
    """run fn(*args, **kwargs) in a forked child and return its (picklable) result; raise Hang if it does not finish
    within `timeout` seconds (the child is killed), re-raise Machinery for harness errors inside the child."""
    import pickle
    import select
    import signal
    import traceback
    r, w = os.pipe()
    pid = os.fork()
    if pid == 0:
        os.close(r)
        try:
            try:
                data = pickle.dumps(('ok', fn(*args, **kwargs)))
            except Machinery as e:
                data = pickle.dumps(('machinery', str(e)))
            except BaseException as e:
                data = pickle.dumps(('err', repr(e) + '\n' + traceback.format_exc()[-1500:]))
            with os.fdopen(w, 'wb') as f:
                f.write(data)
        finally:
            os._exit(0)
    os.close(w)
    chunks = []
    deadline = time.time() + timeout
    with os.fdopen(r, 'rb') as f:
        fd = f.fileno()
        while True:
            left = deadline - time.time()
            if left <= 0:
                os.kill(pid, signal.SIGKILL)
                os.waitpid(pid, 0)
                # also end grandchildren (multiprocessing workers) that were left behind
                raise Hang('no result after %d s' % timeout)
            ready, _, _ = select.select([fd], [], [], min(left, 1.0))
            if ready:
                b = os.read(fd, 1 << 20)
                if not b:
                    break
                chunks.append(b)
    _, status = os.waitpid(pid, 0)
    if not chunks:
        if os.WIFSIGNALED(status):
            raise Hang('process died with signal %d' % os.WTERMSIG(status))
        raise Machinery('forked call returned nothing (status %r)' % (status,))
    kind, val = pickle.loads(b''.join(chunks))
    if kind == 'ok':
        return val
    if kind == 'machinery':
        raise Machinery(val)
    raise Machinery('exception inside forked harness call: ' + val)
