import argparse
import importlib
import json
import os
import sys
import time
import traceback

from .common import Machinery, ensure_dirs


def main():
    ap = argparse.ArgumentParser()
    ap.add_argument('prop')
    ap.add_argument('--tier', default=os.environ.get('VERIF_TIER', 'quick'), choices=['quick', 'thorough'])
    ap.add_argument('--replay', default=None)
    a = ap.parse_args()
    ensure_dirs()
    if a.replay:
        with open(a.replay) as f:
            rp = json.load(f)
        os.environ['VERIF_SEED'] = str(rp.get('seed', 1))
        a.tier = rp.get('tier', a.tier)
        print('replaying %s (tier=%s seed=%s): the check is deterministic for a given tier and seed' % (a.replay, a.tier, os.environ['VERIF_SEED']))
    try:
        mod = importlib.import_module('harness.checks.' + a.prop.lower())
    except ImportError:
        traceback.print_exc()
        print('no check for property %s' % a.prop, file=sys.stderr)
        return 2
    try:
        return mod.run(a.tier)
    except Machinery as e:
        print('MACHINERY-FAILURE property=%s: %s' % (a.prop, e), file=sys.stderr)
        return 2
    except Exception:
        traceback.print_exc()
        print('MACHINERY-FAILURE property=%s: unexpected exception in the harness' % a.prop, file=sys.stderr)
        return 2


if __name__ == '__main__':
    sys.exit(main())
