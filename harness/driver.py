"""Conformance of the real command-line driver (depccg/__main__.py: main, reached through the real depccg/argparse.py) with
spec/Driver.tla: every terminal state of the model is a test vector; the real main is run on an input built from it (file,
pipe or simulated terminal), the stage calls it makes are recorded and the recording is judged by traces/DriverTrace.tla.
The only stand-ins are the supertagger (load_model) and the terminal (input / isatty); read_params, the annotator,
apply_category_filters, depccg.parsing.run (on the translated search) and print_ are the real ones.
The driver is outside the 20 listed properties: deviations are reported as NOTE lines and in the evidence of C19, never as
violations."""
import builtins
import contextlib
import io
import json
import os
import re
import sys

import numpy as np

from .common import NCPU, Machinery, scratch
from .tlc import run_tlc, require_clean
from .trace import validate
from . import substrate

LEX = ['NP', 'S[dcl]\\NP', '(S[dcl]\\NP)/NP', 'N']


class FakeTagger(object):
    """a supertagger stand-in: every word gets its best tag from a fixed vocabulary (unknown words: NP)"""

    def __init__(self, log):
        self.log = log

    def predict_doc(self, sents):
        from depccg.types import ScoringResult
        self.log.append({'e': 'tag', 'words': [list(s) for s in sents]})
        out = []
        for s in sents:
            n = len(s)
            tag = np.full((n, len(LEX)), -10.0, dtype=np.float32)
            for i, w in enumerate(s):
                tag[i, {'runs': 1, 'loves': 2}.get(w, 0)] = 0.0
            dep = np.full((n, n + 1), -1.0, dtype=np.float32)
            out.append(ScoringResult(tag, dep))
        return out, list(LEX)


def tlc_vectors():
    r = require_clean(run_tlc('Driver.tla', 'Driver.cfg', workers=min(NCPU, 8), timeout=900), 'Driver')
    if r.violated:
        raise Machinery('Driver.tla: %s violated' % r.violated)
    vecs = sorted(set(r.tagged('VEC')))
    return [json.loads(v) for v in vecs], r


def line_text(kind, i, infmt, rng):
    """the text of line i (1-based) of the given kind; the first word names the line"""
    name = 'John%d' % i
    if kind == 'blank':
        return rng.choice(['', '   ', '\t'])
    verb = rng.choice(['runs', 'runs', 'John'])
    # the items of the line: fields separated by '|' (with the raw format an item is a word whatever it contains, so the
    # same texts are used for both formats, except that plain lines stay plain words)
    if kind in ('ok', 'gap'):
        a, b = ('%s|NNP|O' % name, '%s|VBZ|O' % verb) if infmt == 'tagged' else (name, verb)
    elif kind == 'ok4':
        a, b = '%s|%s|NNP|O' % (name, name.lower()), '%s|run|VBZ|O' % verb
    elif kind == 'ok5':
        a, b = '%s|%s|NNP|O|I-NP' % (name, name.lower()), '%s|run|VBZ|O|I-VP' % verb
    elif kind == 'bad2':
        a, b = '%s|NNP' % name, '%s|VBZ|O' % verb
    else:       # bad6
        a, b = '%s|x|NNP|O|I-NP|extra' % name, '%s|VBZ|O' % verb
    sep = '  ' if kind == 'gap' else ' '
    pad = rng.choice(['', ' ', '  '])
    return pad + a + sep + b + pad


def layout_of(leaf):
    """(word, lemma, pos, entity, chunk) of a printed leaf -> which attributes came from the input ('xx' none, 'f3' pos and
    entity, 'f4' lemma too, 'f5' chunk too); the texts of line_text make the classes disjoint"""
    word, lemma, pos, entity, chunk = leaf
    shown = (lemma != 'XX', pos != 'XX', entity != 'XX', chunk != 'XX')
    return {(False, False, False, False): 'xx', (False, True, True, False): 'f3', (True, True, True, False): 'f4',
            (True, True, True, True): 'f5'}.get(shown, 'other:%s' % (shown,))


def ix_of_words(words):
    m = re.match(r'John(\d+)(\||$)', words[0]) if words else None
    return int(m.group(1)) if m else 0


def run_vector(v, rng):
    """-> list of events for one run of the real main"""
    substrate.load(hook=False)
    import depccg.__main__ as M
    import depccg.argparse as A
    import depccg.parsing as P
    from depccg.instance_models import MODELS
    log = [{'e': 'start', 'lines': v['lines'], 'source': v['source'], 'infmt': v['infmt'], 'dictoff': bool(v['dictoff'])}]
    texts = [line_text(k, i + 1, v['infmt'], rng) for i, k in enumerate(v['lines'])]
    d = scratch('driver')
    argv = ['depccg', 'en', '--silent', '-p', '1', '-f', 'auto_extended', '-I', 'POSandNERtagged' if v['infmt'] == 'tagged' else 'raw']
    if v['dictoff']:
        argv.append('--disable-category-dictionary')
    stdin = io.StringIO(''.join(t + '\n' for t in texts))
    tty = v['source'] == 'keyboard'
    stdin.isatty = lambda: tty
    if v['source'] == 'file':
        path = os.path.join(d, 'in%d.txt' % os.getpid())
        with open(path, 'w') as f:
            f.write(''.join(t + '\n' for t in texts))
        argv += ['--input', path]
        stdin.isatty = lambda: True        # a file argument wins over whatever stdin is
    pending = list(texts)

    def fake_input(prompt=''):
        if not pending:
            raise EOFError()
        return pending.pop(0)
    orig = (M.load_model, P.apply_category_filters, P.run, M.print_, sys.argv, sys.stdin, builtins.input)
    out = io.StringIO()

    def w_filter(doc, scores, cats, cdict, *a, **k):
        log.append({'e': 'filter', 'ix': [ix_of_words([t.word for t in s]) for s in doc]})
        return orig[1](doc, scores, cats, cdict, *a, **k)

    def w_run(doc, *a, **k):
        res = orig[2](doc, *a, **k)
        log.append({'e': 'parse', 'ix': [ix_of_words([t.word for t in s]) for s in doc], 'nres': len(res)})
        return res

    def w_print(results, **k):
        before = len(out.getvalue())
        orig[3](results, **k)
        text = out.getvalue()[before:]
        # AUTO (extended) text: one 'ID=' header and one derivation line per record; the first word of the derivation names the
        # line, the attributes of its first token show what the tokeniser made of the item
        recs, lays = [], []
        for ln in text.split('\n'):
            if ln.startswith('('):
                lv = re.findall(r'\(<L \S+ (\S*) (\S*) (\S*) (\S*) (\S*) \S+>\)', ln)
                recs.append(ix_of_words([x[0] for x in lv]) if lv else 0)
                lays.append(layout_of(lv[0]) if lv else 'none')
        log.append({'e': 'print', 'ix': recs, 'lay': lays, 'headers': sum(1 for ln in text.split('\n') if ln.startswith('ID='))})
    tagger = FakeTagger(log)
    M.load_model = lambda model, gpu: (tagger, MODELS['en'])
    P.apply_category_filters, P.run, M.print_ = w_filter, w_run, w_print
    sys.argv, sys.stdin, builtins.input = argv, stdin, fake_input
    kind = 'done'
    try:
        with contextlib.redirect_stdout(out):
            A.parse_args(M.main)
    except EOFError:
        kind = 'eof_error'
    except AssertionError:
        kind = 'assertion_error'
    except SystemExit as e:
        kind = 'exit:%r' % (e.code,)
    except Exception as e:
        kind = 'exception:' + repr(e)[:150]
    finally:
        M.load_model, P.apply_category_filters, P.run, M.print_, sys.argv, sys.stdin, builtins.input = orig
    log.append({'e': 'end', 'kind': kind})
    # uniform records for TLC (every event has every field)
    evs = []
    for e in log:
        evs.append({'e': e['e'], 'lines': e.get('lines', []), 'source': e.get('source', ''), 'infmt': e.get('infmt', ''), 'dictoff': e.get('dictoff', False),
                    'ix': e.get('ix', [ix_of_words(s) for s in e.get('words', [])]), 'n': len(e.get('words', e.get('ix', []))),
                    'empty_words': sum(1 for s in e.get('words', []) for w in s if w == ''),
                    'lay': e.get('lay', []), 'headers': e.get('headers', 0), 'nres': e.get('nres', 0), 'kind': e.get('kind', '')})
    return evs, texts


def conformance(tier, rng):
    vecs, mr = tlc_vectors()
    use = vecs if tier == 'thorough' else rng.sample(vecs, 300)
    events, metas = [], {}
    g = 0
    for v in use:
        g += 1
        evs, texts = run_vector(v, rng)
        for e in evs:
            e['id'] = len(events) + 1
            e['g'] = g
            events.append(e)
            metas[e['id']] = {'vector': v, 'input_lines': texts, 'event': e['e']}
    rejects, stats = validate('traces/DriverTrace.tla', events, 'driver', per_shard=400, group='g')
    from .trace import binding_demo

    def drop_record(e):
        if e['e'] == 'print' and e['ix']:
            e['ix'] = e['ix'][:-1]
            return e

    def swap(e):
        if e['e'] == 'parse' and len(e['ix']) >= 2:
            e['ix'] = e['ix'][::-1]
            return e
    def relayout(e):
        if e['e'] == 'print' and e['lay']:
            e['lay'][0] = 'f4' if e['lay'][0] != 'f4' else 'xx'
            return e
    demo = binding_demo('traces/DriverTrace.tla', events, [('one_printed_record_removed', drop_record), ('parsed_sentences_reordered', swap),
                                                           ('token_attributes_of_a_record_changed', relayout)], 'driver', group='g')
    dev = {}
    for i, cl in rejects:
        dev.setdefault(cl, []).append(metas[i])
    return {'vectors_from_tlc': len(vecs), 'runs_of_the_real_main': len(use), 'events': len(events), 'states': mr.distinct + stats.states,
            'tlc_run': {'cfg': 'Driver.cfg', 'distinct': mr.distinct, 'generated': mr.generated},
            'deviations': {c: len(ms) for c, ms in dev.items()}, 'first_deviation': {c: ms[0] for c, ms in dev.items()},
            'binding_demonstration': demo,
            'terminal_kinds': {k: sum(1 for e in events if e['e'] == 'end' and e['kind'] == k) for k in sorted({e['kind'] for e in events if e['e'] == 'end'})}}
