"""Driving the real rule functions in worker subprocesses (one PYTHONHASHSEED each)."""
import json
import os
import subprocess
import sys

from .common import scratch, VERIF, NCPU, Machinery


def run_tasks(tasks, name, nproc=None, hashseeds=None, split=True):
    """tasks: list of dicts with unique 't'.  split=True: tasks are partitioned over nproc workers
    (hash seed i of hashseeds, default 0).  split=False: *every* worker gets all tasks (one per hash seed).
    Returns {t: [obs...]} (split) or {seed: {t: [obs...]}} (not split)."""
    d = scratch(name)
    nproc = nproc or NCPU
    jobs = []
    if split:
        n = max(1, min(nproc, len(tasks)))
        size = (len(tasks) + n - 1) // n
        for i in range(n):
            part = tasks[i * size:(i + 1) * size]      # contiguous: related tasks (variants of one pair) stay in one process, in order
            seed = (hashseeds[i % len(hashseeds)] if hashseeds else 0)
            jobs.append((i, seed, part))
    else:
        # every interpreter sees every task, but in a different order (reversed / rotated), so that a result that depends
        # on what was asked before (a cache keyed too coarsely, shared mutable state) differs between the processes
        for i, seed in enumerate(hashseeds):
            order = list(tasks)
            if i % 2 == 1:
                order.reverse()
            if i % 4 >= 2:
                k = (len(order) * (i + 1)) // (len(hashseeds) + 2) if order else 0
                order = order[k:] + order[:k]
            jobs.append((i, seed, order))
    procs = []
    for i, seed, part in jobs:
        fin = os.path.join(d, 'in%03d.ndjson' % i)
        fout = os.path.join(d, 'out%03d.ndjson' % i)
        with open(fin, 'w') as f:
            for t in part:
                f.write(json.dumps(t, ensure_ascii=True, separators=(',', ':')) + '\n')
        env = dict(os.environ)
        env['PYTHONHASHSEED'] = str(seed)
        procs.append((i, seed, fin, fout, len(part)))
    out = {} if split else {}
    running = []
    pending = list(procs)
    results = []
    while pending or running:
        while pending and len(running) < nproc:
            i, seed, fin, fout, n = pending.pop(0)
            env = dict(os.environ)
            env['PYTHONHASHSEED'] = str(seed)
            p = subprocess.Popen([sys.executable, '-m', 'harness.workers.rules_worker', fin, fout], cwd=VERIF, env=env,
                                 stdout=subprocess.PIPE, stderr=subprocess.PIPE)
            running.append((p, i, seed, fin, fout, n))
        p, i, seed, fin, fout, n = running.pop(0)
        so, se = p.communicate()
        if p.returncode != 0:
            raise Machinery('rules worker %d failed: %s' % (i, se.decode()[-2000:]))
        results.append((seed, fout, fin, n))
    for seed, fout, fin, n in results:
        cnt = 0
        with open(fout) as f:
            for line in f:
                r = json.loads(line)
                cnt += 1
                if split:
                    out[r['t']] = r['obs']
                else:
                    out.setdefault(seed, {})[r['t']] = r['obs']
        if cnt != n:
            raise Machinery('rules worker returned %d of %d results' % (cnt, n))
        os.remove(fout)
        os.remove(fin)
    return out


# ---------------------------------------------------------------- shared helpers of C03 C04 C14
ASCII_LETTERS = set('abcdefghijklmnopqrstuvwxyzABCDEFGHIJKLMNOPQRSTUVWXYZ')


def punct_bases(*cats):
    """bases that count as punctuation: first character is not a letter, or LRB RRB LQU RQU (decided on code points)"""
    from . import enc
    out = set()
    for c in cats:
        for a in enc.leaves(c):
            b = a['b']
            if (b and b[0] not in ASCII_LETTERS) or b in ('LRB', 'RRB', 'LQU', 'RQU'):
                out.add(b)
    return sorted(out)


_aux_path = None


def aux_file():
    """constants of the rules family as projected values: seen-rule sets, unary tables, Japanese root set"""
    global _aux_path
    if _aux_path:
        return _aux_path
    from . import enc, inventory
    aux = {'seen': {}, 'unary': {}}
    for name in ('en', 'en_rebank', 'ja'):
        aux['seen'][name] = [[enc.parse_text(a), enc.parse_text(b)] for a, b in inventory.seen_rules(name)]
        aux['unary'][name] = [[enc.parse_text(a), enc.parse_text(b)] for a, b in inventory.unary_rules(name)]
    aux['ja_roots'] = [enc.parse_text(t) for t in inventory.JA_ROOTS_SPEC]
    p = os.path.join(scratch('aux'), 'rules_aux.json')
    with open(p, 'w') as f:
        json.dump(aux, f, ensure_ascii=True, separators=(',', ':'))
    _aux_path = p
    return p


def bin_events(pairs, lang, name, start_id=0, seen=None):
    """apply the real binary rules to every (x, y) of pairs (projected values) -> (events, metas)"""
    from . import enc
    tasks = [{'t': i, 'op': 'bin', 'lang': lang, 'x': x, 'y': y, 'seen': seen} for i, (x, y) in enumerate(pairs)]
    obs = run_tasks(tasks, name)
    events, metas = [], {}
    for i, (x, y) in enumerate(pairs):
        o = obs[i][0]
        eid = start_id + i + 1
        events.append({'e': 'bin', 'id': eid, 'lang': lang, 'x': x, 'y': y, 'pb': punct_bases(x, y), 'raised': o['raised'],
                       'res': o['res'], 'xa': o['x_after'], 'ya': o['y_after']})
        metas[eid] = {'x': enc.show_cat(x), 'y': enc.show_cat(y), 'raised': o['exc'],
                      'results': [(enc.show_cat(r['c']), r['op'], ''.join(map(chr, r['symcp'])), r['hl']) for r in o['res']]}
    return events, metas


def closure_pairs(events, rng, limit):
    """categories produced by the rules, fed back as inputs (one round)"""
    from . import enc
    pool, seen = [], set()
    for e in events:
        for r in e['res']:
            k = enc.show_cat(r['c'])
            if k not in seen:
                seen.add(k)
                pool.append(r['c'])
    return pool
