"""Conformance of the real training-data creator (depccg/tools/data.py: TrainingDataCreator.create_traindata) with
spec/TrainData.tla, in both directions:
  spec -> code  every finished run of MCTrainData (a bank of trees, the cuts, the six files) is a vector: the trees are built
                with the public constructors, printed by the real `auto` encoder, the real creator is run on the file and what
                it wrote is compared with the vector
  code -> spec  random banks of grammar-licensed and arbitrary derivations (mixed-case words, failure placeholders, repeated
                categories around the cuts): the files the creator wrote are recorded next to the flat projection of the trees
                *as the harness built them* and judged by traces/TrainDataTrace.tla (TrainData!Expected)
The tool is outside the 20 listed properties: deviations are reported as NOTE lines and in the evidence of C08, never as
violations."""
import json
import os
import types

from .common import Machinery, scratch
from .tlc import run_tlc, require_clean
from .trace import validate
from . import substrate, trees, enc, render_family as rf

VOCAB = ['The', 'the', 'THE', 'dog', 'Dog', 'runs', 'a', 'A', 'Mary', 'saw', 'FAILED', 'failed', 'to', 'To', 'I', 'OOR2', 'xOOR3', 'OOR4', 'door', 'doors', 'indoors', '*END*', 'x', 'xx', 'xxx', 'xxxx', 'xxxxx']


def flat(t):
    """everything the creator reads of a tree (TrainData!Flat), from the harness's own tree value"""
    leaves, bins, uns = [], [], []

    def rec(n):
        c = enc.show_cat(n['cat'])
        if n['k'] == 'L':
            leaves.append([c, n['tok']['word'].lower(), list(n['tok']['word'])])
        elif n['k'] == 'U':
            uns.append([c, enc.show_cat(n['kids'][0]['cat'])])
            rec(n['kids'][0])
        else:
            bins.append([enc.show_cat(n['kids'][0]['cat']), enc.show_cat(n['kids'][1]['cat'])])
            rec(n['kids'][0])
            rec(n['kids'][1])
    rec(t)
    ws = [x['tok']['word'] for x in trees.leaves_of(t)]
    # head-first dependencies, computed here from the harness's own tree (not with depccg's code)
    deps = [None] * len(ws)
    pos = [0]

    def head(n):
        if n['k'] == 'L':
            pos[0] += 1
            return pos[0]
        if n['k'] == 'U':
            return head(n['kids'][0])
        h = head(n['kids'][0])
        d = head(n['kids'][1])
        deps[d - 1] = h
        return h
    deps[head(t) - 1] = 0
    return {'failed': ws == ['FAILED'], 'leaves': leaves, 'bins': bins, 'uns': uns, 'deps': deps}


def read_table(path, arity):
    rows = []
    with open(path, encoding='utf-8') as f:
        for ln in f:
            ln = ln.rstrip('\n')
            if not ln:
                continue
            key, _, n = ln.rpartition(' # ')
            ks = key.split(' ') if arity == 2 else [key]
            if len(ks) != arity:
                ks = (ks + [''] * arity)[:arity - 1] + [' '.join(ks[arity - 1:])]
            rows.append(ks + [int(n)])
    return rows


def read_sents(path):
    with open(path, encoding='utf-8') as f:
        return [ln.rstrip('\n').split(' ') for ln in f if ln.rstrip('\n')]


def read_conll(path):
    """-> blocks of rows of ten fields (position and head as numbers); None when a line does not have that layout"""
    blocks, cur = [], []
    with open(path, encoding='utf-8') as f:
        for ln in f:
            ln = ln.rstrip('\n')
            if not ln:
                if cur:
                    blocks.append(cur)
                cur = []
                continue
            fs = ln.split('\t')
            if len(fs) != 10 or not fs[0].isdigit() or not fs[6].isdigit():
                return None
            cur.append([int(fs[0]), fs[1], fs[2], fs[3], fs[4], fs[5], int(fs[6]), fs[7], fs[8], fs[9]])
    if cur:
        return None          # the last block is not closed by a blank line
    return blocks


def run_creator(bank_dicts, ccut, wcut, acut=None, mode='train'):
    """-> the files the real creator writes for a bank given as tree dicts"""
    from depccg.printer import to_string
    from depccg.tools.data import TrainingDataCreator
    from depccg.tree import ScoredTree
    from pathlib import Path
    real = [[ScoredTree(tree=trees.build_real(t), score=-0.5)] for t in bank_dicts]
    text = to_string(real, format='auto') if real else ''                 # an empty bank is an empty file
    d = scratch('traindata')
    path = os.path.join(d, 'bank%d.auto' % os.getpid())
    with open(path, 'w', encoding='utf-8') as f:
        f.write(text + '\n')
    out = os.path.join(d, 'out%d' % os.getpid())
    os.makedirs(out, exist_ok=True)
    for fn in os.listdir(out):
        os.remove(os.path.join(out, fn))
    args = types.SimpleNamespace(PATH=Path(path), OUT=Path(out), word_freq_cut=wcut, cat_freq_cut=ccut, afix_freq_cut=wcut if acut is None else acut)
    res = {'raised': False, 'why': '', 'target': [], 'words': [], 'seen': [], 'unary': [], 'prefixes': [], 'suffixes': [], 'nsamples': 0, 'sents': [], 'conll': [], 'conll_layout_ok': True}
    try:
        if mode == 'test':
            TrainingDataCreator.create_testdata(args)
            with open(os.path.join(out, 'testdata.json')) as f:
                res['nsamples'] = len(json.load(f))
            res['sents'] = read_sents(os.path.join(out, 'testsents.txt'))
            cb = read_conll(os.path.join(out, 'testsents.conll'))
            res['conll'], res['conll_layout_ok'] = cb or [], cb is not None
            res['other_files'] = sorted(fn for fn in os.listdir(out) if not fn.startswith('test'))
            return res
        TrainingDataCreator.create_traindata(args)
        res['sents'] = read_sents(os.path.join(out, 'trainsents.txt'))
        cb = read_conll(os.path.join(out, 'trainsents.conll'))
        res['conll'], res['conll_layout_ok'] = cb or [], cb is not None
        res['target'] = read_table(os.path.join(out, 'target.txt'), 1)
        res['words'] = read_table(os.path.join(out, 'words.txt'), 1)
        res['seen'] = read_table(os.path.join(out, 'seen_rules.txt'), 2)
        res['unary'] = read_table(os.path.join(out, 'unary_rules.txt'), 2)
        res['prefixes'] = read_table(os.path.join(out, 'prefixes.txt'), 1)
        res['suffixes'] = read_table(os.path.join(out, 'suffixes.txt'), 1)
        with open(os.path.join(out, 'traindata.json')) as f:
            res['nsamples'] = len(json.load(f))
    except Exception as e:
        res['raised'], res['why'] = True, repr(e)[:200]
    return res


def dict_of_vec_tree(v):
    cat = enc.parse_text(v['c'])
    if v['k'] == 'L':
        return trees.leaf(cat, {'word': v['w']})
    if v['k'] == 'U':
        return trees.unary(cat, dict_of_vec_tree(v['kids'][0]))
    return trees.binary(cat, dict_of_vec_tree(v['kids'][0]), dict_of_vec_tree(v['kids'][1]), 'fa', '>', True)


def random_bank(rng):
    bank = []
    for _ in range(rng.randint(1, 7)):
        r = rng.random()
        if r < 0.12:
            bank.append(trees.leaf(enc.parse_text(rng.choice(['NP', 'N', 'S[dcl]'])), {'word': 'FAILED'}))      # the failure placeholder
            continue
        b = trees.make_batch(rng, 'en', nsent=1, nbest=1, awkward=0.0, licensed_p=0.7, maxlen=4)
        t = b[0][0]
        for x in trees.leaves_of(t):
            x['tok'] = {'word': rng.choice(VOCAB)}
        t.pop('licensed', None)
        bank.append(t)
        if rng.random() < 0.3:
            bank.append(json.loads(json.dumps(t)))                     # the same derivation again: counts around the cuts
    return bank


def conformance(tier, rng):
    substrate.load(hook=False)
    rf.set_lang('en')
    runs = []
    for cfg in ('MCTrainData.cfg', 'MCTrainData_deep.cfg', 'MCTrainData_oor.cfg', 'MCTrainData_test.cfg'):
        r = require_clean(run_tlc('MCTrainData.tla', cfg, workers=4, timeout=1200), cfg)
        if r.violated:
            raise Machinery('TrainData.tla: %s violated (%s)' % (r.violated, cfg))
        runs.append((cfg, r))
    lic = run_tlc('MCTrainData.tla', 'MCTrainData_licensed.cfg', workers=4, timeout=1200)
    refuted = 'EveryTreeOfTheBankIsLicensed' in lic.violated
    if not refuted:
        raise Machinery('TrainData.tla: EveryTreeOfTheBankIsLicensed was expected to be refuted')
    vecs = []
    for cfg, r in runs:
        vs = sorted(set(r.tagged('VEC')))
        vecs += [json.loads(v) for v in (vs if tier == 'thorough' else rng.sample(vs, min(len(vs), 250)))]
    # spec -> code
    dev_vec = {}
    for v in vecs:
        got = run_creator([dict_of_vec_tree(t) for t in v['src']], v['ccut'], v['wcut'], v['acut'], v['mode'])
        bad = []
        if got['raised']:
            bad.append('creator_raised')
        else:
            for k in ('target', 'words', 'seen', 'unary', 'prefixes', 'suffixes'):
                if sorted(map(tuple, got[k])) != sorted(map(tuple, v[k])) or len(got[k]) != len(set(map(tuple, got[k]))):
                    bad.append(k + '_differs_from_the_vector')
            if got['nsamples'] != v['nsamples']:
                bad.append('number_of_samples_differs_from_the_vector')
            if got['sents'] != v['sents']:
                bad.append('sentence_file_differs_from_the_vector')
            if not got['conll_layout_ok'] or got['conll'] != v['conll']:
                bad.append('conll_file_differs_from_the_vector')
            if got.get('other_files'):
                bad.append('test_mode_wrote_tables')
        for c in bad:
            dev_vec.setdefault(c, []).append({'vector': v, 'files': got})
    # code -> spec
    events, metas = [], {}
    for it in range(150 if tier == 'quick' else 2500):
        bank = random_bank(rng)
        ccut, wcut, acut = rng.choice([1, 2, 3]), rng.choice([1, 2, 3]), rng.choice([1, 2, 3, 5])
        mode = 'test' if it % 5 == 4 else 'train'
        got = run_creator(bank, ccut, wcut, acut, mode)
        ev = {'id': len(events) + 1, 'e': 'traindata', 'mode': mode, 'sents': got['sents'], 'conll': got['conll'], 'layout': got['conll_layout_ok'], 'ccut': ccut, 'wcut': wcut, 'acut': acut, 'bank': [flat(t) for t in bank],
              'raised': got['raised'], 'target': got['target'], 'words': got['words'], 'seen': got['seen'], 'unary': got['unary'], 'prefixes': got['prefixes'], 'suffixes': got['suffixes'], 'nsamples': got['nsamples']}
        events.append(ev)
        metas[ev['id']] = {'bank': [' '.join(x['tok']['word'] for x in trees.leaves_of(t)) for t in bank], 'ccut': ccut, 'wcut': wcut, 'acut': acut, 'raised': got['why']}
    rejects, stats = validate('traces/TrainDataTrace.tla', events, 'traindata', per_shard=100)
    from .trace import binding_demo

    def drop_row(e):
        if e['seen']:
            e['seen'] = e['seen'][:-1]
            return e

    def count_off(e):
        if e['target']:
            e['target'][0][-1] += 1
            return e

    def suffix_count_off(e):
        if e['suffixes']:
            e['suffixes'][-1][-1] += 1
            return e

    def prefix_row_dropped(e):
        if len(e['prefixes']) > 6:
            e['prefixes'] = e['prefixes'][:-1]
            return e

    def head_moved(e):
        for b in e['conll']:
            if len(b) > 1:
                r = [x for x in b if x[6] != 0][0]
                r[6] = r[0]
                return e

    def word_lowered(e):
        for b in e['sents']:
            for j, w in enumerate(b):
                if w != w.lower():
                    b[j] = w.lower()
                    return e

    def flip_unary(e):
        if e['unary'] and e['unary'][0][0] != e['unary'][0][1]:
            e['unary'][0][0], e['unary'][0][1] = e['unary'][0][1], e['unary'][0][0]
            return e
    demo = binding_demo('traces/TrainDataTrace.tla', events, [('one_seen_rule_removed', drop_row), ('one_count_changed', count_off), ('unary_pair_written_child_first', flip_unary), ('one_suffix_count_changed', suffix_count_off), ('one_prefix_row_removed', prefix_row_dropped), ('one_conll_head_changed', head_moved), ('one_word_of_the_sentence_file_lower_cased', word_lowered)], 'traindata')
    dev = {}
    for i, cl in rejects:
        dev.setdefault(cl, []).append(metas[i])
    return {'tlc_runs': [{'cfg': cfg, 'distinct': r.distinct, 'generated': r.generated, 'vectors': len(set(r.tagged('VEC')))} for cfg, r in runs],
            'expected_refutation': {'cfg': 'MCTrainData_licensed.cfg', 'invariant': 'EveryTreeOfTheBankIsLicensed', 'refuted_by_tlc': refuted,
                                    'meaning': 'seen_rules.txt keeps a pair only if both child categories are frequent LEAF categories: the rules extracted from a bank do not license every node of that bank'},
            'vectors_replayed_into_the_real_creator': len(vecs), 'vector_deviations': {c: len(v) for c, v in dev_vec.items()},
            'first_vector_deviation': {c: v[0] for c, v in dev_vec.items()},
            'banks_recorded_from_the_real_creator': len(events), 'trace_deviations': {c: len(v) for c, v in dev.items()},
            'first_trace_deviation': {c: v[0] for c, v in dev.items()},
            'states': sum(r.distinct for _, r in runs) + lic.distinct + stats.states, 'binding_demonstration': demo}
