"""Independent lexers: text of each output format -> document model (DESIGN 4.4, Appendix B).
They know nothing about CCG and use no depccg code.  Every node has the same fields so that the TLA+
side can address them uniformly:
  k      'L' leaf | 'T' inner node
  cat    category text as spelled in the format ('' if the format has none at this node)
  cat2   second category field of AUTO leaves
  lab    rule label text ('' if absent)      sym  rule symbol text ('' if absent)
  hl     1 head is left | 0 head is right | -1 the format has no head field here
  n      declared number of children (-1 if not declared)
  wordcp code points of the word as spelled in the format ([] for inner nodes)
  attrs  [{k, v, cp}] further token attributes carried by the format
  b, e   begin / end offsets (-1 if absent)   id  identifier text ('' if absent)
  kids   children
A LexError means the text is not a document of the format at all (the property that demanded the
format then fails with clause <fmt>.unreadable)."""
import json
import re


class LexError(Exception):
    pass


def cps(s):
    return [ord(ch) for ch in s]


def node(k, cat='', cat2='', lab='', sym='', hl=-1, n=-1, word=None, attrs=None, b=-1, e=-1, id='', kids=None):
    return {'k': k, 'cat': cat, 'cat2': cat2, 'lab': lab, 'sym': sym, 'hl': hl, 'n': n, 'wordcp': cps(word) if word is not None else [],
            'attrs': attrs or [], 'b': b, 'e': e, 'id': id, 'kids': kids or []}


def attr(k, v):
    return {'k': k, 'v': v, 'cp': cps(v)}


# ---------------------------------------------------------------------------------------------- AUTO
def lex_auto_line(line, extended=False):
    f = line.split(' ')
    pos = [0]

    def take():
        if pos[0] >= len(f):
            raise LexError('auto: unexpected end of line')
        x = f[pos[0]]
        pos[0] += 1
        return x

    def rec():
        t = take()
        if t == '(<L':
            if extended:
                cat, word, lemma, ps, ent, chunk, last = take(), take(), take(), take(), take(), take(), take()
                if not last.endswith('>)'):
                    raise LexError('auto_extended: leaf not closed: %r' % last)
                return node('L', cat=cat, cat2=last[:-2], word=word,
                            attrs=[attr('lemma', lemma), attr('pos', ps), attr('entity', ent), attr('chunk', chunk)])
            cat, p1, p2, word, last = take(), take(), take(), take(), take()
            if not last.endswith('>)'):
                raise LexError('auto: leaf not closed: %r' % last)
            return node('L', cat=cat, cat2=last[:-2], word=word, attrs=[attr('pos', p1), attr('pos2', p2)])
        if t == '(<T':
            cat = take()
            lab = take() if extended else ''
            hl = take()
            n = take()
            if not n.endswith('>') or hl not in ('0', '1'):
                raise LexError('auto: bad node header')
            kids = []
            while True:
                if pos[0] >= len(f):
                    raise LexError('auto: node not closed')
                if f[pos[0]] == ')':
                    pos[0] += 1
                    break
                kids.append(rec())
            try:
                nn = int(n[:-1])
            except ValueError:
                raise LexError('auto: bad child count')
            return node('T', cat=cat, lab=lab, hl=1 if hl == '0' else 0, n=nn, kids=kids)
        raise LexError('auto: unexpected field %r' % t)
    t = rec()
    if pos[0] != len(f):
        raise LexError('auto: trailing fields')
    return t


_hdr = re.compile(r'^ID=(\d+), log probability=(-?[\d.]+|-?inf|nan)$')


def lex_headed(text, linefn):
    """documents of the shape  (ID=<n>, log probability=<p> NEWLINE <one-line record>)*  ->  [{sent, logprob, tree}]"""
    out = []
    lines = text.split('\n')
    if lines and lines[-1] == '':
        lines.pop()
    i = 0
    while i < len(lines):
        m = _hdr.match(lines[i])
        if not m or i + 1 >= len(lines):
            raise LexError('header expected at line %d: %r' % (i + 1, lines[i][:60]))
        out.append({'sent': int(m.group(1)), 'logprob': m.group(2), 'tree': linefn(lines[i + 1])})
        i += 2
    return out


def lex_auto(text):
    return lex_headed(text, lambda ln: lex_auto_line(ln, False))


def lex_auto_extended(text):
    return lex_headed(text, lambda ln: lex_auto_line(ln, True))


# ---------------------------------------------------------------------------------------------- CoNLL
def lex_conll(text):
    """-> [{sent, logprob, rows:[{id, wordcp, lemma, pos, pos2, head, cat, frag}]}]"""
    out, cur = [], None
    lines = text.split('\n')
    if lines and lines[-1] == '':
        lines.pop()
    for ln in lines:
        if ln.startswith('# ID='):
            cur = {'sent': int(ln[5:]), 'logprob': '', 'rows': []}
            out.append(cur)
        elif ln.startswith('# log probability='):
            cur['logprob'] = ln[len('# log probability='):]
        else:
            c = ln.split('\t')
            if len(c) != 10 or cur is None:
                raise LexError('conll: row with %d columns' % len(c))
            try:
                cur['rows'].append({'id': int(c[0]), 'wordcp': cps(c[1]), 'lemma': c[2], 'pos': c[3], 'pos2': c[4], 'c6': c[5], 'head': int(c[6]),
                                    'cat': c[7], 'c9': c[8], 'frag': c[9]})
            except ValueError:
                raise LexError('conll: non-numeric id/head')
    return out


# ---------------------------------------------------------------------------------------------- PTB
def lex_ptb_line(line):
    """S-expression: '(' LABEL (child+ | WORD) ')'.  A child starts with '('; anything else up to the closing ')' is the word."""
    s = line
    i = [0]

    def rec():
        if i[0] >= len(s) or s[i[0]] != '(':
            raise LexError('ptb: ( expected at %d' % i[0])
        i[0] += 1
        j = s.find(' ', i[0])
        if j < 0:
            raise LexError('ptb: label without content')
        label = s[i[0]:j]
        i[0] = j + 1
        if i[0] < len(s) and s[i[0]] == '(':
            kids = []
            while True:
                kids.append(rec())
                if i[0] < len(s) and s[i[0]] == ' ':
                    i[0] += 1
                    continue
                break
            if i[0] >= len(s) or s[i[0]] != ')':
                raise LexError('ptb: ) expected at %d' % i[0])
            i[0] += 1
            return node('T', cat=label, kids=kids)
        # leaf: the word runs to the last ')' before the next ' (' or the end of this bracket
        j = i[0]
        while j < len(s) and s[j] != ' ':
            j += 1
        chunk = s[i[0]:j]                      # word followed by one or more ')'
        k = len(chunk)
        # the leaf's own ')' is the first ')' after at least one character (words are non-empty)
        p = chunk.find(')', 1)
        if p < 0:
            raise LexError('ptb: leaf not closed')
        word = chunk[:p]
        i[0] += p + 1
        return node('L', cat=label, word=word)
    t = rec()
    if i[0] != len(s):
        raise LexError('ptb: trailing text')
    if t['cat'] != 'ROOT' or len(t['kids']) != 1:
        raise LexError('ptb: no ROOT wrapper')
    return t['kids'][0]


def lex_ptb(text):
    return lex_headed(text, lex_ptb_line)


# ---------------------------------------------------------------------------------------------- Japanese CCGbank format
def lex_ja_line(line):
    s = line
    i = [0]

    def rec():
        if i[0] >= len(s) or s[i[0]] != '{':
            raise LexError('ja: { expected at %d' % i[0])
        i[0] += 1
        j = s.find(' ', i[0])
        if j < 0:
            raise LexError('ja: field expected')
        first = s[i[0]:j]
        i[0] = j + 1
        if i[0] < len(s) and s[i[0]] != '{':
            # leaf: first = category, then word/word/pos/infl up to '}'
            j = s.find('}', i[0])
            if j < 0:
                raise LexError('ja: leaf not closed')
            body = s[i[0]:j]
            i[0] = j + 1
            parts = body.split('/')
            if len(parts) != 4:
                raise LexError('ja: leaf with %d slash-separated fields' % len(parts))
            return node('L', cat=first, word=parts[0], attrs=[attr('word2', parts[1]), attr('pos', parts[2]), attr('infl', parts[3])])
        # inner node: first = symbol, then category, then children
        raise LexError('ja: category expected')

    def rec2():
        if i[0] >= len(s) or s[i[0]] != '{':
            raise LexError('ja: { expected at %d' % i[0])
        save = i[0]
        i[0] += 1
        j = s.find(' ', i[0])
        if j < 0:
            raise LexError('ja: field expected')
        first = s[i[0]:j]
        k = j + 1
        # inner node iff after the second field a '{' follows
        j2 = s.find(' ', k)
        if j2 >= 0 and '}' not in s[k:j2] and j2 + 1 < len(s) and s[j2 + 1] == '{':
            cat = s[k:j2]
            i[0] = j2 + 1
            kids = []
            while True:
                kids.append(rec2())
                if i[0] < len(s) and s[i[0]] == ' ':
                    i[0] += 1
                    continue
                break
            if i[0] >= len(s) or s[i[0]] != '}':
                raise LexError('ja: } expected at %d' % i[0])
            i[0] += 1
            return node('T', cat=cat, sym=first, kids=kids)
        i[0] = save
        return rec()
    t = rec2()
    if i[0] != len(s):
        raise LexError('ja: trailing text')
    return t


def lex_ja(text):
    return lex_headed(text, lex_ja_line)


# ---------------------------------------------------------------------------------------------- C&C XML
def lex_xml(text):
    from lxml import etree
    try:
        root = etree.fromstring(text.encode('utf-8'))
    except etree.XMLSyntaxError as e:
        raise LexError('xml: %s' % e)
    if root.tag != 'candc':
        raise LexError('xml: root is %s' % root.tag)
    out = []

    def rec(el):
        a = dict(el.attrib)
        if el.tag == 'rule':
            return node('T', cat=a.pop('cat', ''), lab=a.pop('type', ''), kids=[rec(c) for c in el])
        if el.tag == 'lf':
            cat = a.pop('cat', '')
            try:
                start, span = int(a.pop('start', '-1')), int(a.pop('span', '-1'))
            except ValueError:
                raise LexError('xml: non-numeric start/span')
            word = a.pop('word', None)
            return node('L', cat=cat, word=word if word is not None else '', b=start, n=span, attrs=[attr(k, a[k]) for k in sorted(a)],
                        id='' if word is not None else 'NOWORD')
        raise LexError('xml: unexpected element %s' % el.tag)
    for ccg in root:
        if ccg.tag != 'ccg' or len(ccg) != 1:
            raise LexError('xml: ccg element malformed')
        try:
            out.append({'sent': int(ccg.get('sentence', '-1')), 'tid': int(ccg.get('id', '-1')), 'tree': rec(ccg[0])})
        except ValueError:
            raise LexError('xml: non-numeric sentence/id')
    return out


# ---------------------------------------------------------------------------------------------- Jigg XML
def lex_jigg(text_or_element):
    from lxml import etree
    if isinstance(text_or_element, (str, bytes)):
        try:
            root = etree.fromstring(text_or_element.encode('utf-8') if isinstance(text_or_element, str) else text_or_element)
        except etree.XMLSyntaxError as e:
            raise LexError('jigg: %s' % e)
    else:
        root = text_or_element
    sents = root.xpath('/root/document/sentences/sentence')
    out = []
    for s in sents:
        toks = []
        for t in s.xpath('./tokens/token'):
            a = dict(t.attrib)
            tid = a.pop('id', '')
            try:
                start = int(a.pop('start', '-1'))
            except ValueError:
                raise LexError('jigg: non-numeric token start')
            cat = a.pop('cat', '')
            toks.append({'id': tid, 'start': start, 'cat': cat, 'attrs': [attr(k, a[k]) for k in sorted(a)]})
        ccgs = []
        for c in s.xpath('./ccg'):
            spans = []
            for sp in c.xpath('./span'):
                a = sp.attrib
                try:
                    spans.append({'id': a.get('id', ''), 'category': a.get('category', ''), 'begin': int(a.get('begin', '-1')), 'end': int(a.get('end', '-1')),
                                  'rule': a.get('rule', ''), 'hasrule': 'rule' in a, 'child': a.get('child', '').split(' ') if a.get('child') else [],
                                  'terminal': a.get('terminal', ''), 'root': a.get('root', '')})
                except ValueError:
                    raise LexError('jigg: non-numeric begin/end')
            ccgs.append({'id': c.get('id', ''), 'root': c.get('root', ''), 'score': c.get('score', ''), 'spans': spans})
        out.append({'tokens': toks, 'ccgs': ccgs})
    return out


# ---------------------------------------------------------------------------------------------- JSON
def lex_json(text):
    try:
        obj = json.loads(text)
    except ValueError as e:
        raise LexError('json: %s' % e)
    if not isinstance(obj, dict):
        raise LexError('json: top level is not an object')

    def rec(d):
        if not isinstance(d, dict) or 'cat' not in d or not isinstance(d['cat'], str):
            raise LexError('json: node without textual cat')
        if 'children' in d:
            return node('T', cat=d['cat'], lab=str(d.get('type', '')), kids=[rec(c) for c in d['children']])
        a = {k: v for k, v in d.items() if k not in ('cat', 'log_prob')}
        word = a.pop('word', None)
        return node('L', cat=d['cat'], word=str(word) if word is not None else '', attrs=[attr(k, str(a[k])) for k in sorted(a)],
                    id='' if word is not None else 'NOWORD')
    out = []
    for key, trees in obj.items():
        try:
            sent = int(key)
        except ValueError:
            raise LexError('json: key %r' % key)
        for tid, t in enumerate(trees, 1):
            out.append({'sent': sent, 'tid': tid, 'logprob': repr(t.get('log_prob')), 'tree': rec(t)})
    return out


# ---------------------------------------------------------------------------------------------- Prolog
def lex_prolog(text):
    """-> {'header': [...lines], 'clauses': [{sent, term}]}; term = {'f': functor, 'args': [term...]} | {'a': text, 'q': quoted?}"""
    i = [0]
    s = text

    def ws():
        while i[0] < len(s) and s[i[0]] in ' \t\r\n':
            i[0] += 1

    def quoted():
        i[0] += 1
        out = []
        while True:
            if i[0] >= len(s):
                raise LexError('prolog: unterminated quoted atom')
            ch = s[i[0]]
            if ch == '\\' and i[0] + 1 < len(s):
                out.append(s[i[0] + 1])
                i[0] += 2
                continue
            if ch == "'":
                i[0] += 1
                return {'a': ''.join(out), 'q': True, 'cp': cps(''.join(out))}
            out.append(ch)
            i[0] += 1

    def group():
        depth, j = 0, i[0]
        while j < len(s):
            if s[j] == '(':
                depth += 1
            elif s[j] == ')':
                depth -= 1
                if depth == 0:
                    txt = s[i[0]:j + 1]
                    i[0] = j + 1
                    return txt
            j += 1
        raise LexError('prolog: unbalanced category')

    def term():
        ws()
        if i[0] >= len(s):
            raise LexError('prolog: term expected')
        if s[i[0]] == "'":
            return quoted()
        if s[i[0]] == '(':
            txt = group()
            # a category may continue, e.g. (a/b)\(a/b) as in "cat\cat" written by the conj wrapper
            while i[0] < len(s) and s[i[0]] in '/\\|':
                op = s[i[0]]
                i[0] += 1
                rest = term()
                txt = txt + op + rest['a']
            return {'a': txt, 'q': False, 'cp': []}
        j = i[0]
        while j < len(s) and s[j] not in '(),\n' and s[j] not in ' \t':
            j += 1
        name = s[i[0]:j]
        i[0] = j
        if i[0] < len(s) and s[i[0]] == '(' and re.match(r'^[a-z_][A-Za-z0-9_]*$', name):
            i[0] += 1
            args = []
            while True:
                args.append(term())
                ws()
                if i[0] < len(s) and s[i[0]] == ',':
                    i[0] += 1
                    continue
                if i[0] < len(s) and s[i[0]] == ')':
                    i[0] += 1
                    break
                raise LexError('prolog: , or ) expected at %d' % i[0])
            return {'f': name, 'args': args}
        if i[0] < len(s) and s[i[0]] == '(':
            # category text such as np\(s/np): atom followed by a group
            txt = name + group()
            return {'a': txt, 'q': False, 'cp': []}
        if name == '':
            raise LexError('prolog: empty term at %d' % i[0])
        return {'a': name, 'q': False, 'cp': []}
    header = []
    clauses = []
    while True:
        ws()
        if i[0] >= len(s):
            break
        if s.startswith(':-', i[0]):
            j = s.find('\n', i[0])
            header.append(s[i[0]:j if j >= 0 else len(s)])
            i[0] = j + 1 if j >= 0 else len(s)
            continue
        t = term()
        ws()
        if not s.startswith('.', i[0]):
            raise LexError('prolog: clause not terminated at %d' % i[0])
        i[0] += 1
        if t.get('f') != 'ccg' or len(t['args']) != 2 or 'a' not in t['args'][0]:
            raise LexError('prolog: ccg/2 clause expected')
        try:
            clauses.append({'sent': int(t['args'][0]['a']), 'term': t['args'][1]})
        except ValueError:
            raise LexError('prolog: sentence number')
    return {'header': header, 'clauses': clauses}


# ---------------------------------------------------------------------------------------------- deriv
def lex_deriv(text):
    """-> [{sent, logprob, cats:[{col, t}], words:[{col, cp}], steps:[{a, b, sym, cat, catcol}]}]; columns count code points"""
    lines = text.split('\n')
    out = []
    i = 0

    def fields(line):
        res, j = [], 0
        while j < len(line):
            if line[j] == ' ':
                j += 1
                continue
            k = j
            while k < len(line) and line[k] != ' ':
                k += 1
            res.append((j, line[j:k]))
            j = k
        return res
    while i < len(lines):
        if lines[i] == '':
            i += 1
            continue
        m = _hdr.match(lines[i])
        if not m or i + 2 >= len(lines):
            raise LexError('deriv: header expected at line %d' % (i + 1))
        rec = {'sent': int(m.group(1)), 'logprob': m.group(2), 'cats': [{'col': c, 't': t} for c, t in fields(lines[i + 1])],
               'words': [{'col': c, 'cp': cps(t)} for c, t in fields(lines[i + 2])], 'steps': []}
        i += 3
        while i + 1 < len(lines) and not _hdr.match(lines[i]) and lines[i] != '':
            dl, cl = lines[i], lines[i + 1]
            a = len(dl) - len(dl.lstrip(' '))
            b = a
            while b < len(dl) and dl[b] == '-':
                b += 1
            if b == a:
                raise LexError('deriv: rule line without dashes')
            cf = fields(cl)
            if len(cf) != 1:
                raise LexError('deriv: category line with %d fields' % len(cf))
            rec['steps'].append({'a': a, 'b': b, 'sym': dl[b:], 'cat': cf[0][1], 'catcol': cf[0][0]})
            i += 2
        out.append(rec)
    return out


# ---------------------------------------------------------------------------------------------- HTML / MathML
def lex_html(text):
    """lenient HTML parse (captions are emitted unescaped) -> [{sent, caption_cp, trees:[{logprob, tree}]}]"""
    import lxml.html
    try:
        doc = lxml.html.fromstring(text)
    except Exception as e:
        raise LexError('html: %r' % (e,))
    body = doc.find('.//body')
    if body is None:
        raise LexError('html: no body')
    out = []
    cur = None

    def local(el):
        t = el.tag
        return t.split('}')[-1] if isinstance(t, str) else ''

    def cat_of(mstyle):
        parts = []
        for el in mstyle:
            if local(el) == 'mi':
                parts.append(el.text or '')
            elif local(el) == 'msub':
                mis = [x for x in el.iter() if local(x) == 'mi']
                parts.append(''.join((x.text or '') for x in mis))
            else:
                raise LexError('html: unexpected %s in category' % local(el))
        return ''.join(parts)

    def rec(mrow):
        kids = [k for k in mrow if isinstance(k.tag, str)]
        if len(kids) != 2 or local(kids[0]) != 'mfrac' or local(kids[1]) != 'mtext':
            raise LexError('html: mrow shape')
        frac = [k for k in kids[0] if isinstance(k.tag, str)]
        if len(frac) != 2 or local(frac[1]) != 'mstyle':
            raise LexError('html: mfrac shape')
        cat = cat_of(frac[1])
        label = kids[1].text or ''
        if local(frac[0]) == 'mtext':
            return node('L', cat=cat, lab=label, word=frac[0].text or '')
        if local(frac[0]) == 'mrow':
            return node('T', cat=cat, lab=label, kids=[rec(k) for k in frac[0] if isinstance(k.tag, str)])
        raise LexError('html: numerator is %s' % local(frac[0]))
    for el in body:
        tag = local(el)
        if tag == 'p':
            txt = el.text_content()
            m = re.match(r'^ID=(\d+): (.*)$', txt, re.S)
            if m:
                cur = {'sent': int(m.group(1)), 'caption_cp': cps(m.group(2)), 'trees': [], 'pending': ''}
                out.append(cur)
                continue
            m = re.match(r'^Log prob=(.*)$', txt)
            if m and cur is not None:
                cur['pending'] = m.group(1)
                continue
            # an unescaped word may have produced stray markup inside the caption paragraph: tolerated, the trees carry the words
            continue
        if tag == 'math':
            if cur is None:
                raise LexError('html: math before any caption')
            rows = [k for k in el if isinstance(k.tag, str)]
            if len(rows) != 1:
                raise LexError('html: math with %d children' % len(rows))
            cur['trees'].append({'logprob': cur['pending'], 'tree': rec(rows[0])})
    for c in out:
        c.pop('pending', None)
    return out
