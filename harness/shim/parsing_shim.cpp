// extern "C" layer around depccg/parsing.h (compiled from $VERIF_REPO by every parser check).
// Accessors are compiled against the header, so a layout change cannot desynchronise the Python side.
#include <climits>
#include <cstring>
#include <cstdlib>
#include <vector>
#include "depccg/parsing.h"
extern "C" {
typedef int (*c_scaffold_t)(void *cb, unsigned x, unsigned y, void *results);
typedef unsigned (*c_final_t)(void *item, unsigned *tok, void *cache, void *args);
static c_scaffold_t g_scaffold; static c_final_t g_final;
static int scaffold_tramp(void *cb, unsigned x, unsigned y, std::vector<combinator_result> *r){ return g_scaffold(cb,x,y,(void*)r); }
static unsigned final_tramp(parsing::cell_item *it, unsigned *tok, cache_type *c, void *a){ return g_final((void*)it,tok,(void*)c,a); }
void *v_cache_new(){ return new cache_type(); }
void v_cache_free(void *c){ delete (cache_type*)c; }
int v_cache_entries(void *c){ return (int)((cache_type*)c)->size(); }
int v_cache_size(void *c, unsigned a, unsigned b){ auto &m=*(cache_type*)c; auto it=m.find({a,b}); return it==m.end()?-1:(int)it->second.size(); }
void *v_cache_get(void *c, unsigned a, unsigned b, unsigned i){ auto &m=*(cache_type*)c; return (void*)&m[{a,b}].at(i); }
void v_vec_push(void *v, unsigned cat, unsigned rule, int hl, const char *s1, const char *s2){ combinator_result r; r.cat_id=cat; r.rule_id=rule; r.head_is_left=hl; r.op_string=s1; r.op_symbol=s2; ((std::vector<combinator_result>*)v)->push_back(r); }
unsigned v_cr_cat(void *p){return ((combinator_result*)p)->cat_id;} unsigned v_cr_rule(void *p){return ((combinator_result*)p)->rule_id;}
int v_cr_hl(void *p){return ((combinator_result*)p)->head_is_left;} const char *v_cr_s1(void *p){return ((combinator_result*)p)->op_string.c_str();} const char *v_cr_s2(void *p){return ((combinator_result*)p)->op_symbol.c_str();}
int v_it_fin(void *p){return ((parsing::cell_item*)p)->fin;} unsigned v_it_cat(void *p){return ((parsing::cell_item*)p)->cat;}
void *v_it_left(void *p){return ((parsing::cell_item*)p)->left;} void *v_it_right(void *p){return ((parsing::cell_item*)p)->right;}
float v_it_in(void *p){return ((parsing::cell_item*)p)->in_score;} float v_it_out(void *p){return ((parsing::cell_item*)p)->out_score;}
float v_it_score(void *p){return ((parsing::cell_item*)p)->score();}
unsigned v_it_start(void *p){return ((parsing::cell_item*)p)->start_of_span;} unsigned v_it_len(void *p){return ((parsing::cell_item*)p)->span_length;}
unsigned v_it_head(void *p){return ((parsing::cell_item*)p)->head_id;} unsigned v_it_rule(void *p){return ((parsing::cell_item*)p)->rule_id;}
int v_parse(float *tag, float *dep, unsigned length, unsigned *roots, unsigned nroots, void *bcb, void *ucb, c_final_t fin, c_scaffold_t scaf, void *fargs, void *cache,
            unsigned num_tags, float unary_penalty, float beta, int use_beta, unsigned pruning, unsigned nbest, unsigned max_step, unsigned *status, char *err, int errlen){
  std::unordered_set<unsigned> rs(roots, roots+nroots); config c{num_tags,unary_penalty,beta,(bool)use_beta,pruning,nbest,max_step};
  g_scaffold=scaf; g_final=fin;
  try { *status = parse_sentence(tag,dep,length,rs,bcb,ucb,final_tramp,scaffold_tramp,fargs,(cache_type*)cache,&c); return 0; }
  catch (std::exception &e){ strncpy(err,e.what(),errlen-1); err[errlen-1]=0; return -1; }
}
// ---- pop hook collector (DEPCCG_VERIF must be set in the environment for the hook to be installed)
struct poprec { int fin; unsigned cat,start,len,head,rule; float in,out; const void *stored,*left,*right; };
static std::vector<poprec> g_pops;
static long g_pop_limit = 2000000;
static void hook(const parsing::cell_item *it, const parsing::cell_item *stored){
  if ((long)g_pops.size() < g_pop_limit)
    g_pops.push_back({it->fin,it->cat,it->start_of_span,it->span_length,it->head_id,it->rule_id,it->in_score,it->out_score,(const void*)stored,(const void*)it->left,(const void*)it->right}); }
int v_hook_on(){ depccg_verif_set_pop_hook(hook); return depccg_verif_pop_hook != nullptr; }
void v_hook_off(){ depccg_verif_set_pop_hook(nullptr); }
void v_pops_clear(){ g_pops.clear(); }
int v_pops_n(){ return (int)g_pops.size(); }
void v_pop_get(int i, int *fin, unsigned *u5, float *f2, unsigned long long *a3){
  const poprec &p=g_pops[i]; *fin=p.fin; u5[0]=p.cat;u5[1]=p.start;u5[2]=p.len;u5[3]=p.head;u5[4]=p.rule; f2[0]=p.in;f2[1]=p.out;
  a3[0]=(unsigned long long)p.stored; a3[1]=(unsigned long long)p.left; a3[2]=(unsigned long long)p.right; }
}
