"""Driver of the parser family C01 C02 C09 C10 C12a C16: instances (grammar tables + score matrices +
configuration) are parsed by the real depccg.parsing.run (translated pyx + compiled parsing.h), the pop
hook and the returned objects are projected, and traces/ParserTrace.tla judges every event."""
import math
import random
import time

import numpy as np

from .common import Machinery, Violation, conclude, seed, NCPU
from . import enc, substrate
from .trace import validate

LABELS = None


class NonDyadic(Exception):
    """every input score is a multiple of 1/8 (tags, dependencies, penalty), so every sum the search forms is one too; a value
    that is not cannot be a model score / priority of the given model"""


# properties whose statements are about the scores themselves: a non-dyadic value is a rejected event for them; the other
# properties of the family are judged on the trees alone (scores rounded, priorities dropped)
SCORE_PROPS = ('C01', 'C09', 'C10')
_strict = [True]


def _inexact(x):
    v = x * 8.0
    return v != v or abs(v) > 2 ** 28 or abs(v - round(v)) > 1e-6


def _exact8(x, what):
    v = x * 8.0
    if v != v or abs(v) > 2 ** 28:
        # inputs are bounded (|k| <= 2^15 per entry): no sum of them is this large - garbage was read somewhere
        if _strict[0]:
            raise NonDyadic('%s %r is not a sum of the given scores (out of their range)' % (what, x))
        return 2 ** 28 if v > 0 else -2 ** 28
    r = int(round(v))
    if abs(v - r) > 1e-6:
        if _strict[0]:
            raise NonDyadic('%s %r is not a sum of the given scores (all multiples of 1/8)' % (what, x))
        return r
    return r


# ------------------------------------------------------------------ synthetic grammars
def synthetic_grammar(rng, headmode, n_lex=None, n_all=None, multi=True, unary=True, twins=False):
    """-> dict(lex, allc, B, U, roots): categories are atoms A..F; B[(x,y)] / U[x] lists of CombinatorResult.
    twins: the categories differ pairwise only in a feature that the English grammar ignores ([nb], [X]) - a table grammar
    tells them apart, and the parser has to go by what the grammar it was given says"""
    from depccg.cat import Category
    from depccg.types import CombinatorResult
    atoms = [Category.parse(c) for c in ('A A[nb] A[X] B B[nb] B[X]' if twins else 'A B C D E F').split()]
    K = n_lex or rng.randint(2, 3)
    C = n_all or rng.randint(K, 5)
    lex, allc = atoms[:K], atoms[:C]
    B = {}
    for x in allc:
        for y in allc:
            if rng.random() < 0.45:
                nres = rng.choice([1, 1, 2, 3]) if multi else 1
                rs = []
                for i in range(nres):
                    hl = {'L': True, 'R': False, 'M': rng.random() < 0.5}[headmode]
                    rs.append(CombinatorResult(rng.choice(allc), 'b%d' % i, '<b%d>' % i, hl))
                B[(x, y)] = rs
    U = {}
    order = {c: i for i, c in enumerate(allc)}
    if unary:
        for x in allc:
            if rng.random() < 0.4:
                tg = [c for c in allc if order[c] > order[x]]     # acyclic
                if tg:
                    U[x] = [CombinatorResult(c, 'u%d' % i, '<u%d>' % i, True)
                            for i, c in enumerate(rng.sample(tg, min(len(tg), rng.choice([1, 2]))))]
    roots = rng.sample(allc, rng.randint(1, 2))
    return {'lex': lex, 'allc': allc, 'B': B, 'U': U, 'roots': roots, 'uniform': headmode != 'M', 'kind': 'synthetic-' + headmode,
            'bin': lambda x, y: list(B.get((x, y), [])), 'un': lambda x: list(U.get(x, []))}


# ------------------------------------------------------------------ real grammars on small lexicons
EN_LEX = ['NP', 'N', 'NP[nb]/N', 'S[dcl]\\NP', '(S[dcl]\\NP)/NP', '(S\\NP)\\(S\\NP)', 'N/N', 'conj', ',', '.', 'PP/NP', '(NP\\NP)/NP',
          'S[dcl]', '(S[dcl]\\NP)/PP', 'S[b]\\NP', '(S[dcl]\\NP)/(S[b]\\NP)', '((S\\NP)\\(S\\NP))/NP', 'NP\\NP']
JA_LEX = ['NP[case=nc,mod=nm,fin=f]', 'NP[case=ga,mod=nm,fin=f]', 'NP[case=o,mod=nm,fin=f]', 'S[mod=nm,form=base,fin=f]\\NP[case=ga,mod=nm,fin=f]',
          '(S[mod=nm,form=base,fin=f]\\NP[case=ga,mod=nm,fin=f])\\NP[case=o,mod=nm,fin=f]', 'NP[case=ga,mod=nm,fin=f]\\NP[case=nc,mod=nm,fin=f]',
          'NP[case=o,mod=nm,fin=f]\\NP[case=nc,mod=nm,fin=f]', 'S[mod=nm,form=base,fin=t]\\S[mod=nm,form=base,fin=f]',
          'S[mod=adn,form=base,fin=f]\\NP[case=ga,mod=nm,fin=f]', 'NP[case=nc,mod=X1,fin=X2]/NP[case=nc,mod=X1,fin=X2]',
          'S[mod=nm,form=cont,fin=f]\\NP[case=ga,mod=nm,fin=f]', 'S[mod=nm,form=base,fin=f]\\S[mod=nm,form=cont,fin=f]',
          'S[mod=nm,form=base,fin=f]']
_real = {}


def real_grammar(rng, lang, n, seen=False):
    """real rule functions (through read_params, so the shipped unary table / seen rules are the real ones)
    on a small random lexicon; tables = closure of what the callbacks return, bounded by spans <= n"""
    from depccg.cat import Category
    from .workers import rules_worker
    name = lang if lang == 'ja' else rng.choice(['en', 'en'])
    fb, fu, _, _ = rules_worker.params(name)
    if not seen:
        from depccg.grammar import en, ja
        fb = {'en': en, 'ja': ja}[lang].apply_binary_rules
    pool = EN_LEX if lang == 'en' else JA_LEX
    lex = [Category.parse(s) for s in rng.sample(pool, rng.randint(3, 5))]
    # reachable categories per span length
    def close_un(cs):
        out, frontier = list(cs), list(cs)
        while frontier:
            new = []
            for c in frontier:
                for r in fu(c):
                    if r.cat not in out:
                        out.append(r.cat)
                        new.append(r.cat)
            frontier = new
        return out
    span = {1: close_un(lex)}
    for ln in range(2, n + 1):
        cur = []
        for m in range(1, ln):
            for x in span[m]:
                for y in span[ln - m]:
                    for r in fb(x, y):
                        if r.cat not in cur:
                            cur.append(r.cat)
        span[ln] = close_un(cur) if ln != n else cur
        if len(cur) > 40:
            return None
    allc = list(lex)
    for ln in range(1, n + 1):
        for c in span[ln]:
            if c not in allc:
                allc.append(c)
    if len(allc) > 16:
        return None
    if lang == 'en':
        cand = [c for c in allc if str(c) in ('S[dcl]', 'NP', 'S', 'S[b]\\NP', 'N')] or allc[:1]
    else:
        from depccg.grammar import ja
        cand = [c for c in allc if c in ja._possible_root_categories] or allc[:1]
    roots = rng.sample(cand, min(len(cand), rng.randint(1, 2)))
    return {'lex': lex, 'allc': allc, 'B': None, 'U': None, 'roots': roots, 'uniform': True, 'kind': 'real-%s%s' % (lang, '-seen' if seen else ''),
            'bin': fb, 'un': fu}


# ------------------------------------------------------------------ one instance through the real parser
def enc_tree(t, idx, pos):
    if t.is_leaf:
        i = pos[0]
        pos[0] += 1
        return {'k': 'L', 'c': idx.get(t.cat, 0), 'w': i + 1, 'word': t.word, 'lab': t.op_string, 'sym': t.op_symbol, 'hl': True, 'kids': []}
    if t.is_unary:
        return {'k': 'U', 'c': idx.get(t.cat, 0), 'w': 0, 'word': '', 'lab': t.op_string, 'sym': t.op_symbol, 'hl': True, 'kids': [enc_tree(t.child, idx, pos)]}
    l = enc_tree(t.left_child, idx, pos)
    r = enc_tree(t.right_child, idx, pos)
    return {'k': 'B', 'c': idx.get(t.cat, 0), 'w': 0, 'word': '', 'lab': t.op_string, 'sym': t.op_symbol, 'hl': bool(t.head_is_left), 'kids': [l, r]}


def tree_text(nd):
    if nd['k'] == 'L':
        return '%d:%s' % (nd['c'], nd['word'])
    return '(%d %s%s %s)' % (nd['c'], nd['lab'], '' if nd['k'] == 'U' else ('<' if nd['hl'] else '>'), ' '.join(tree_text(k) for k in nd['kids']))


def twin_head_case(rng):
    """three words; X over two adjacent words by (A B -> X, head left) and (C D -> X, head right); the third word's second-best
    tag E combines with X (on its left or its right, head on either side); dependency scores at random"""
    from depccg.cat import Category
    from depccg.types import CombinatorResult
    A, Bc, C, D, Y, Z, X, S = [Category.parse(c) for c in 'A B C D E F X S'.split()]
    lex, allc = [A, Bc, C, D, Y, Z], [A, Bc, C, D, Y, Z, X, S]
    y_first = rng.random() < 0.5
    B = {(A, Bc): [CombinatorResult(X, 'ab', '<ab>', True)], (C, D): [CombinatorResult(X, 'cd', '<cd>', False)]}
    B[(Y, X) if y_first else (X, Y)] = [CombinatorResult(S, 'yx', '<yx>', rng.random() < 0.5)]
    U = {}
    lo = -32
    first, second = [0, lo, -rng.choice([0, 1, 2]), lo, lo, lo], [lo, 0, lo, -rng.choice([0, 1, 2]), lo, lo]
    # the third word has a better tag (F, which combines with nothing): the outside estimate of the X items is made with it,
    # so they are popped before the leaf E that they combine with
    yrow = [lo, lo, lo, lo, -rng.choice([4, 8, 12]), 0]
    tag8 = [yrow, first, second] if y_first else [first, second, yrow]
    dep8 = [[-rng.randrange(0, 9) for _ in range(4)] for _ in range(3)]
    g = {'lex': lex, 'allc': allc, 'B': B, 'U': U, 'roots': [S], 'uniform': False, 'kind': 'synthetic-M',
         'bin': lambda x, y: list(B.get((x, y), [])), 'un': lambda x: list(U.get(x, []))}
    return g, 3, tag8, dep8


def make_scores(rng, n, K, style):
    if style == 'ties':
        vals = [0, 0, -8, -8, -16]
    elif style == 'small':
        vals = list(range(-6, 1))
    else:
        vals = list(range(-24, 1))
    tag8 = [[rng.choice(vals) for _ in range(K)] for _ in range(n)]
    dep8 = [[rng.choice(vals) for _ in range(n + 1)] for _ in range(n)]
    return tag8, dep8


class ParserRaised(Exception):
    pass


class _PicklableBin(object):
    """grammar callables for the worker-process path (multiprocessing pickles them): synthetic grammars are plain tables"""

    def __init__(self, g):
        self.B = g['B']

    def __call__(self, x, y):
        return list(self.B.get((x, y), []))


class _PicklableUn(object):
    def __init__(self, g):
        self.U = g['U']

    def __call__(self, x):
        return list(self.U.get(x, []))


_junk = []


def _junk_results():
    if not _junk:
        from depccg.cat import Category
        from depccg.types import CombinatorResult
        _junk.extend(CombinatorResult(Category.parse('G%d' % i), 'junk', '<junk>', True) for i in range(70000))
    return _junk


def run_instance(h, g, n, tag8, dep8, cfg, eid):
    """cfg: pen8, k, prune, usebeta, b16, maxstep.  Returns (event, meta)."""
    from depccg.types import Token, ScoringResult
    lex, allc = g['lex'], g['allc']
    K = len(lex)
    idx = {c: i + 1 for i, c in enumerate(allc)}
    toks = [Token.of_word('w%d' % i) for i in range(n)]
    tag = np.array(tag8, dtype=np.float32) / 8
    dep = np.array(dep8, dtype=np.float32) / 8
    beta = math.exp(-cfg['b16'] / 16.0)
    kw = dict(unary_penalty=cfg['pen8'] / 8.0, beta=beta, use_beta=cfg['usebeta'], pruning_size=cfg['prune'],
              nbest=cfg['k'], max_step=cfg['maxstep'], max_length=250)
    decoy = cfg.get('decoy')
    big = cfg.get('bigtable')
    cfg = {k: v for k, v in cfg.items() if k not in ('decoy', 'bigtable')}
    try:
        if big:
            # the sentence is parsed second in a call whose first sentence makes the grammar return 70 000 categories outside
            # the inventory for one pair (the private category table of the call grows past 2^16 entries)
            junk = _junk_results()
            a0, b0 = lex[0], lex[-1]
            gb = g['bin']

            def bigbin(x, y):
                rs = gb(x, y)
                return rs + junk if (x == a0 and y == b0) else rs
            btag = np.full((2, K), -4096.0, dtype=np.float32)
            btag[0, 0] = 0.0
            btag[1, K - 1] = 0.0
            bsc = ScoringResult(btag, np.zeros((2, 3), dtype=np.float32))
            btoks = [Token.of_word('big0'), Token.of_word('big1')]
            h.rt.pops_clear()
            allres = h.parsing.run([btoks, toks], [bsc, ScoringResult(tag.copy(), dep.copy())], list(lex), list(g['roots']), bigbin, g['un'], **kw)
            res = allres[1] if len(allres) == 2 else []
            pops = []
            decoy = ('a sentence for which the grammar returns 70000 new categories',)
            cfg = dict(cfg, maxstep=10 ** 7)
        elif decoy:
            # the sentence is the second one of a call: another sentence (same grammar, same options) is parsed before it in
            # the same call.  The pops of the first sentence are counted on a call of its own (searches are deterministic).
            dn, dtag8, ddep8 = decoy[:3]
            nlong_before, nlong_after = (decoy[3], decoy[4]) if len(decoy) > 3 else (0, 0)
            # the other sentence often has the very words of this one (w0 w1 ...) - with matrices of its own: what is admitted
            # for a word is said by the scores given for THIS sentence, not by what the words look like
            dtoks = [Token.of_word(('w%d' if (dn == n or (dn + n) % 2 == 0) else 'd%d') % i) for i in range(dn)]
            dsc = lambda: ScoringResult(np.array(dtag8, dtype=np.float32) / 8, np.array(ddep8, dtype=np.float32) / 8)
            # sentences longer than max_length (skipped by the parser: their own placeholder, no search) around the two
            kw['max_length'] = 6
            ltoks = lambda j: [Token.of_word('long%d_%d' % (j, i)) for i in range(7)]
            lsc = lambda: ScoringResult(np.zeros((7, K), dtype=np.float32), np.zeros((7, 8), dtype=np.float32))
            h.rt.pops_clear()
            h.parsing.run([dtoks], [dsc()], list(lex), list(g['roots']), g['bin'], g['un'], **kw)
            n_d = len(h.rt.pops())
            h.rt.pops_clear()
            nlong_mid = (nlong_before + nlong_after) % 2            # one between the two sentences in half of the cases
            docs = [ltoks(j) for j in range(nlong_before)] + [dtoks] + [ltoks(5) for _ in range(nlong_mid)] + [toks] + [ltoks(9) for _ in range(nlong_after)]
            scs = ([lsc() for _ in range(nlong_before)] + [dsc()] + [lsc() for _ in range(nlong_mid)] + [ScoringResult(tag.copy(), dep.copy())]
                   + [lsc() for _ in range(nlong_after)])
            pool = len(decoy) > 5 and decoy[5]
            if pool:
                # the worker-process path: every sentence is a chunk of its own (the searches run in other processes: no pops)
                allres = h.parsing.run(docs, scs, list(lex), list(g['roots']), _PicklableBin(g), _PicklableUn(g), processes=2, max_chunk_size=1, **kw)
            else:
                allres = h.parsing.run(docs, scs, list(lex), list(g['roots']), g['bin'], g['un'], **kw)
            res = allres[nlong_before + 1 + nlong_mid] if len(allres) == len(docs) else []
            pops = [] if pool else h.rt.pops()[n_d:]
            if pool:
                cfg = dict(cfg, maxstep=10 ** 7)
            # a sentence over max_length must get the placeholder; if one got anything else, that result is what is sent to
            # the trace specification (as the result for the 7 words of that sentence)
            for j, (dtk, r) in enumerate(zip(docs, allres)):
                if len(dtk) == 7 and not (len(r) == 1 and r[0].score == -float('inf') and r[0].tree.is_leaf):
                    toks, n, res, pops = dtk, 7, r, []
                    tag8 = [[0] + [-32768] * (K - 1) for _ in range(7)]
                    dep8 = [[0] * 8 for _ in range(7)]
                    cfg = dict(cfg, k=1)
                    decoy = ('a sentence longer than max_length=6 at position %d of the call' % j,)
                    break
        else:
            h.rt.pops_clear()
            res = h.parsing.run([toks], [ScoringResult(tag.copy(), dep.copy())], list(lex), list(g['roots']), g['bin'], g['un'], **kw)[0]
            pops = h.rt.pops()
    except Exception as e:
        # well-formed input: the search neither returned trees nor the failure placeholder
        raise ParserRaised(repr(e)[:300])
    prios = [_exact8(p['in'] + p['out'], 'priority') for p in pops[:4000]]
    if not _strict[0] and any(_inexact(p['in'] + p['out']) for p in pops[:4000]):
        prios = []
    failed = len(res) >= 1 and res[0].score == -float('inf')
    ph = {'n': len(res), 'neginf': False, 'leaf': False}
    trees = []
    if failed:
        ph['neginf'] = all(r.score == -float('inf') for r in res)
        ph['leaf'] = all(r.tree.is_leaf for r in res)
    else:
        for r in res:
            trees.append({'score': _exact8(r.score, 'result score'), 'tree': enc_tree(r.tree, idx, [0])})
    # grammar tables over all reachable categories, as the callbacks return them
    bin_t, un_t = [], []
    for x in allc:
        ur = g['un'](x)
        if ur:
            un_t.append({'x': idx[x], 'res': [{'c': idx.get(r.cat, 0), 'lab': r.op_string, 'sym': r.op_symbol} for r in ur]})
        for y in allc:
            rs = g['bin'](x, y)
            if rs:
                bin_t.append({'x': idx[x], 'y': idx[y], 'res': [{'c': idx.get(r.cat, 0), 'lab': r.op_string, 'sym': r.op_symbol, 'hl': bool(r.head_is_left)} for r in rs]})
    tiny = n <= 3 and len(allc) <= 4
    ev = {'id': eid, 'N': n, 'K': K, 'C': len(allc), 'tag': tag8, 'dep': dep8, 'roots': [idx[c] for c in g['roots']], 'bin': bin_t, 'un': un_t,
          'pen': cfg['pen8'], 'k': cfg['k'], 'kcap': cfg['k'] if tiny else min(cfg['k'], 4), 'prune': cfg['prune'], 'usebeta': cfg['usebeta'],
          'b16': cfg['b16'], 'uniform': g['uniform'], 'words': [t.word for t in toks], 'failed': failed, 'ph': ph, 'trees': trees,
          'prios': prios, 'npops': len(pops), 'maxstep': cfg['maxstep']}
    meta = {'grammar': g['kind'], 'N': n, 'lexicon': [str(c) for c in lex], 'categories': [str(c) for c in allc], 'roots': [str(c) for c in g['roots']],
            'tag_x8': tag8, 'dep_x8': dep8, 'config': cfg, 'second_sentence_of_a_call_after': decoy, 'failed': failed, 'pops': len(pops),
            'result': [(t['score'], tree_text(t['tree'])) for t in trees]}
    return ev, meta


def rand_cfg(rng, focus):
    cfg = {'pen8': rng.choice([0, 1, 4, 8]), 'k': rng.choice([1, 1, 1, 2, 3, 5, 50]), 'prune': rng.choice([1, 2, 3, 50]),
           'usebeta': rng.random() < 0.5, 'b16': rng.choice([7, 15, 23, 39, 71]), 'maxstep': 10 ** 7}
    if focus == 'C01':
        cfg['k'] = 1 if rng.random() < 0.8 else cfg['k']
        if rng.random() < 0.1:
            cfg['maxstep'] = rng.choice([1, 3, 6, 12, 25])
    if focus == 'C10':
        cfg['k'] = rng.choice([2, 3, 4, 5, 8, 50])
    if focus == 'C16':
        cfg['prune'] = rng.choice([1, 1, 2, 2, 3])
        cfg['usebeta'] = rng.random() < 0.7
    return cfg


def make_specs(prop, tier, rng):
    """instance specifications (grammar, length, matrices, configuration); grammars hold callables, so the list is
    built before the worker processes are forked"""
    n_total = {'quick': 900, 'thorough': 30000}[tier]
    specs = []
    want_big = [False]
    while len(specs) < n_total:
        r = rng.random()
        n = rng.choice([1, 2, 2, 3, 3, 3, 4, 4])
        if r < 0.62:
            headmode = rng.choice(['L', 'R', 'L', 'R', 'M']) if prop in ('C02', 'C09', 'C12') else rng.choice(['L', 'R'])
            g = synthetic_grammar(rng, headmode)
        else:
            n = min(n, 3)
            g = real_grammar(rng, 'en' if rng.random() < 0.55 else 'ja', n, seen=rng.random() < 0.3)
            if g is None:
                continue
        style = rng.choice(['ties', 'small', 'wide', 'wide'])
        tag8, dep8 = make_scores(rng, n, len(g['lex']), style)
        cfg = rand_cfg(rng, prop)
        if prop in ('C02', 'C09', 'C12') and rng.random() < 0.06:
            # one constituent derived twice with different head words (a head-left and a head-right rule build the same
            # category over the same two words), and a poorly scored neighbour that is popped after both and combines with
            # each: the score of every derivation is made of ITS heads (C09 speaks of every grammar, k-best lists included)
            g, n, tag8, dep8 = twin_head_case(rng)
            cfg = dict(cfg, k=rng.choice([2, 3, 5, 50]), prune=50, usebeta=False, maxstep=10 ** 7)
            specs.append((g, n, tag8, dep8, cfg))
            continue
        if prop == 'C09' and g['kind'].startswith('synthetic') and rng.random() < 0.15:
            # C09 speaks of every grammar: a unary rule that returns its argument (each application costs the penalty).  The
            # derivations are then infinitely many, so the step budget is kept small; only the clauses of C09 are meaningful.
            from depccg.types import CombinatorResult
            xid = rng.choice(g['allc'])
            g['U'][xid] = g['U'].get(xid, []) + [CombinatorResult(xid, 'uid', '<uid>', True)]
            cfg['maxstep'] = 2000
            cfg['pen8'] = rng.choice([1, 4, 8])
            cfg['k'] = rng.choice([2, 3, 5])
        if prop == 'C16' or rng.random() < 0.2:
            # adversarial rows: scores clustered around the beta threshold, ties at the pruning boundary, flattened entries
            deep = rng.random() < 0.25
            if deep:
                # rows of a very confident tagger: one ordinary best tag, every other tag so unlikely that its probability is 0
                # in single precision (log p below -104) - pairwise different scores all the same, so with the beta filter off
                # the pruning_size best are well defined and the cut falls among them
                cfg = dict(cfg, usebeta=rng.random() < 0.3, prune=rng.choice([1, 2, 2, 3]))
            for i in range(n):
                mode = rng.randrange(4)
                if deep:
                    vals = rng.sample(range(-1300, -840), len(tag8[i]))
                    if rng.random() < 0.3:
                        vals[rng.randrange(len(vals))] = -32768
                    vals[rng.randrange(len(vals))] = rng.choice([0, -3, -8])
                    tag8[i] = vals
                    continue
                best = rng.choice([0, -3, -8])
                thr = cfg['b16'] / 2.0                          # 8 ln(1/beta)
                if mode == 0:
                    tag8[i] = [best - rng.choice([0, int(thr - 0.5), int(thr + 0.5), int(thr) + 3]) for _ in tag8[i]]
                    tag8[i][rng.randrange(len(tag8[i]))] = best
                elif mode == 1:
                    tag8[i] = [best - rng.choice([0, 0, 1]) for _ in tag8[i]]
                elif mode == 2:
                    keep = rng.randrange(len(tag8[i]))
                    tag8[i] = [(v if j == keep or rng.random() < 0.3 else -32768) for j, v in enumerate(tag8[i])]
                    if rng.random() < 0.25:
                        tag8[i] = [-32768] * len(tag8[i])      # a row the category dictionary flattened entirely
        if prop == 'C02' and len(specs) % 75 == 7:
            want_big[0] = True
        # only for sentences of at most three words: the 70 000 categories come back wherever the two lexical categories meet in the
        # second sentence too (rule results are cached per call), and every one of them costs a grammar callback per neighbour -
        # a four-word sentence with every tag admitted then searches for minutes and would be mistaken for a search that hangs
        if want_big[0] and g['kind'].startswith('synthetic') and n <= 3:
            want_big[0] = False
            cfg = dict(cfg, bigtable=True)
        elif rng.random() < 0.25:
            dn = rng.choice([1, 2, 3])
            dt, dd = make_scores(rng, dn, len(g['lex']), 'small')
            cfg = dict(cfg, decoy=(dn, dt, dd, rng.choice([0, 0, 1, 2]), rng.choice([0, 1]),
                                   prop in ('C02', 'C09', 'C12') and g['kind'].startswith('synthetic') and rng.random() < 0.12))
        specs.append((g, n, tag8, dep8, cfg))
    return specs


def hang_event(spec, eid):
    g, n, tag8, dep8, cfg = spec
    return {'grammar': g['kind'], 'N': n, 'lexicon': [str(c) for c in g['lex']], 'categories': [str(c) for c in g['allc']], 'roots': [str(c) for c in g['roots']],
            'tag_x8': tag8, 'dep_x8': dep8, 'config': {k: v for k, v in cfg.items() if k not in ('decoy', 'bigtable')}, 'second_sentence_of_a_call_after': cfg.get('decoy') or cfg.get('bigtable'),
            'failed': None, 'pops': None, 'result': 'SEARCH DID NOT TERMINATE'}


def run_specs_parallel(specs, name, stall_s=120):
    """run every spec through the real parser in forked worker processes; a worker that makes no progress for stall_s
    seconds is killed and the instance it was working on is reported as a hang.  Returns (events, metas, hangs)."""
    import json
    import os
    import signal
    from .common import scratch
    d = scratch(name + '-par')
    W = max(1, min(NCPU, len(specs) // 8 or 1))
    pending = {w: list(range(w, len(specs), W)) for w in range(W)}
    events, metas, hangs = {}, {}, []
    procs = {}

    def start(w):
        out = os.path.join(d, 'w%d-%d.jsonl' % (w, len(pending[w])))
        todo = list(pending[w])
        pid = os.fork()
        if pid == 0:
            try:
                h = substrate.load()
                with open(out, 'w') as f:
                    for i in todo:
                        f.write(json.dumps({'start': i}) + '\n')
                        f.flush()
                        g, n, tag8, dep8, cfg = specs[i]
                        try:
                            ev, meta = run_instance(h, g, n, tag8, dep8, cfg, i + 1)
                        except NonDyadic as e:
                            f.write(json.dumps({'raised': i, 'why': 'nondyadic: ' + str(e)}, ensure_ascii=True) + '\n')
                            f.flush()
                            continue
                        except ParserRaised as e:
                            f.write(json.dumps({'raised': i, 'why': str(e)}, ensure_ascii=True) + '\n')
                            f.flush()
                            continue
                        f.write(json.dumps({'done': i, 'ev': ev, 'meta': meta}, ensure_ascii=True) + '\n')
                        f.flush()
                os._exit(0)
            except BaseException as e:
                try:
                    with open(out, 'a') as f:
                        f.write(json.dumps({'crash': repr(e)[:300]}) + '\n')
                finally:
                    os._exit(3)
        procs[w] = {'pid': pid, 'out': out, 'last_size': -1, 'last_change': time.time()}
    for w in range(W):
        if pending[w]:
            start(w)

    def harvest(w):
        """read the worker's file: completed instances are removed from pending; returns the instance in progress"""
        cur = None
        try:
            with open(procs[w]['out']) as f:
                for line in f:
                    try:
                        r = json.loads(line)
                    except ValueError:
                        continue
                    if 'start' in r:
                        cur = r['start']
                    elif 'done' in r:
                        i = r['done']
                        events[i] = r['ev']
                        metas[i] = r['meta']
                        if i in pending[w]:
                            pending[w].remove(i)
                        cur = None
                    elif 'raised' in r:
                        i = r['raised']
                        if i in pending[w]:
                            pending[w].remove(i)
                            hangs.append((i, r['why'] if r['why'].startswith('nondyadic') else 'parser raised: ' + r['why']))
                        cur = None
                    elif 'crash' in r:
                        raise Machinery('parser worker crashed: %s' % r['crash'])
        except FileNotFoundError:
            pass
        return cur
    while procs:
        time.sleep(0.2)
        for w in list(procs):
            pr = procs[w]
            pid, status = os.waitpid(pr['pid'], os.WNOHANG)
            try:
                size = os.path.getsize(pr['out'])
            except OSError:
                size = 0
            if size != pr['last_size']:
                pr['last_size'], pr['last_change'] = size, time.time()
            if pid != 0:
                cur = harvest(w)
                del procs[w]
                if os.WIFSIGNALED(status) and cur is not None:
                    # the parser crashed the process (e.g. segmentation fault) while working on instance cur
                    hangs.append((cur, 'parser process died with signal %d' % os.WTERMSIG(status)))
                    pending[w].remove(cur)
                elif os.WIFEXITED(status) and os.WEXITSTATUS(status) not in (0,):
                    raise Machinery('parser worker exited with status %d' % os.WEXITSTATUS(status))
                if pending[w]:
                    start(w)
            elif time.time() - pr['last_change'] > stall_s:
                os.kill(pr['pid'], signal.SIGKILL)
                os.waitpid(pr['pid'], 0)
                cur = harvest(w)
                del procs[w]
                if cur is not None:
                    hangs.append((cur, 'no result after %d s' % stall_s))
                    pending[w].remove(cur)
                if pending[w]:
                    start(w)
    order = sorted(events)
    return [events[i] for i in order], {events[i]['id']: metas[i] for i in order}, hangs


def run_family(prop, tier):
    t0 = time.time()
    rng = random.Random(seed() * 1000 + int(prop[1:]))
    substrate.load()
    t_gen = time.time()
    specs = make_specs(prop, tier, rng)
    _strict[0] = prop in SCORE_PROPS
    events, metas, hangs = run_specs_parallel(specs, prop.lower())
    # a search that gave no result within the stall limit is run once more, on its own and with a five times longer limit, before
    # it is called non-terminating: with every core busy (several checks at once) a worker can be starved for that long
    confirmed = []
    for (i, why) in hangs:
        if why.startswith('no result after'):
            try:
                _, _, again = run_specs_parallel([specs[i]], prop.lower() + '_retry', stall_s=600)
            except Machinery:
                again = [(0, why)]
            if not again:
                print('NOTE instance %d gave no result within the stall limit under load and terminated when run on its own' % (i + 1))
                continue
        confirmed.append((i, why))
    hangs = confirmed
    kinds = {}
    for e_i, sp in enumerate(specs):
        kinds[sp[0]['kind']] = kinds.get(sp[0]['kind'], 0) + 1
    n_total = len(specs)
    gen_wall = time.time() - t_gen
    rejects, stats = validate('traces/ParserTrace.tla', events, prop.lower(), per_shard=max(40, n_total // (NCPU * 3)), timeout=3000)
    from .trace import binding_demo

    def score_off(e):
        if e['trees']:
            e['trees'][0]['score'] += 8
            return e

    def prio_up(e):
        if len(e['prios']) > 2:
            e['prios'][-1] = e['prios'][0] + 8
            return e

    def relabel(e):
        for t in e['trees']:
            if t['tree']['k'] != 'L':
                t['tree']['lab'] = 'NOT-A-LABEL'
                return e
    demo = binding_demo('traces/ParserTrace.tla', events, [('reported_score_changed', score_off), ('last_pop_priority_raised', prio_up), ('root_label_replaced', relabel)], prop.lower())
    viols = []
    for (i, why) in hangs:
        m = hang_event(specs[i], i + 1)
        m['hang'] = why
        m['result'] = why if why.startswith(('parser raised', 'nondyadic')) else m['result']
        clause = ('.search_raised_on_wellformed_input' if why.startswith('parser raised') else
                  '.score_not_a_sum_of_the_given_scores' if why.startswith('nondyadic') else '.search_did_not_terminate')
        viols.append(Violation(prop, prop + clause, '%s N=%d tag=%s dep=%s cfg=%s' % (m['grammar'], m['N'], m['tag_x8'], m['dep_x8'], sorted(m['config'].items())), m))
    other = {}
    for (i, clause) in rejects:
        if clause.startswith(prop + '.'):
            m = metas[i]
            key = '%s N=%d tag=%s dep=%s cfg=%s' % (m['grammar'], m['N'], m['tag_x8'], m['dep_x8'], sorted(m['config'].items()))
            viols.append(Violation(prop, clause, key, m))
        else:
            other[clause] = other.get(clause, 0) + 1
    n_failed = sum(1 for e in events if e['failed'])
    cov = {
        'states': stats.states, 'transitions': stats.transitions, 'traces_validated_against_impl': len(events),
        'events': {'searches': len(events), 'by_grammar': kinds, 'failed_searches': n_failed,
                   'nbest_searches': sum(1 for e in events if e['k'] > 1), 'agenda_pops_observed': sum(e['npops'] for e in events),
                   'returned_trees': sum(len(e['trees']) for e in events), 'budget_limited': sum(1 for e in events if e['maxstep'] < 10 ** 6)},
        'clauses_of_other_properties_rejected_in_this_run': other,
        'binding_demonstration': demo,
        'driver_wall_s': round(gen_wall, 1),
        'samples': [metas[i] for i in (1, len(events) // 2, len(events))],
        'checker_cmd': stats.cmds[0] if stats.cmds else '',
        'rule': 'random synthetic head-uniform (and, for validity/score/label properties, mixed-head) grammars with acyclic unary tables and several results per pair, and the real en/ja rule functions on small lexicons; dyadic scores (tie-rich, small, wide); random penalty, k, pruning size, beta, step budget',
    }
    return viols, cov, t0


ASSUMPTIONS = [
    'parsing.pyx is executed through the cythonlite translation of its source text; parsing.h is compiled as is (shim)',
    'scores are dyadic rationals k/8, |k| <= 2^15: float32 arithmetic of the search is exact and equality is demanded without tolerance',
    '8 ln(beta) is a half-integer: no tag sits on the beta threshold; ties at the pruning boundary are three-valued (both outcomes accepted)',
    'optimality / k-best clauses are demanded only for head-uniform grammars (as the property states)',
    'grammar tables handed to the oracle are the closure of what the real callbacks return',
]


class TableGrammar(object):
    """picklable table grammar (needed by the multiprocessing path of depccg.parsing.run)"""

    def __init__(self, B, U):
        self.B, self.U = B, U

    def binary(self, x, y):
        return list(self.B.get((x, y), []))

    def unary(self, x):
        return list(self.U.get(x, []))


# ------------------------------------------------------------------ design-level conformance with AStar.tla (pop by pop)
class Recorder(object):
    """wraps a grammar callable and records the categories of its results in call order (to rebuild the parser's id table)"""

    def __init__(self, fn, log):
        self.fn, self.log = fn, log

    def __call__(self, *a):
        rs = self.fn(*a)
        self.log.extend(r.cat for r in rs)
        return rs


def design_conformance(tier, rng):
    """every pop of real searches replayed against the actions of AStar.tla (traces/AStarTrace.tla).
    Returns a statistics dict; deviations are reported, not raised (a different correct design is no violation)."""
    import json
    import os
    from depccg.types import Token, ScoringResult
    from .common import scratch
    from .tlc import run_tlc, require_clean, write_ndjson
    h = substrate.load()
    _strict[0] = False          # a statistic: values that are not multiples of 1/8 are rounded, the deviation shows as a DESIGN clause
    ngroups = 10 if tier == 'quick' else 80
    per_group = 25 if tier == 'quick' else 60
    d = scratch('astartrace')
    jobs = []
    total_searches = total_pops = 0
    for gi in range(ngroups):
        n = rng.choice([1, 2, 2, 3, 3])
        if gi % 3 == 2:
            g = None
            for _ in range(30):
                g = real_grammar(rng, 'en' if gi % 2 else 'ja', n)
                if g is not None and len(g['allc']) <= 10:
                    break
                g = None
            if g is None:
                g = synthetic_grammar(rng, rng.choice('LR'))
        else:
            g = synthetic_grammar(rng, rng.choice('LR'))
        lex, allc = g['lex'], g['allc']
        K = len(lex)
        idx = {c: i + 1 for i, c in enumerate(allc)}
        cfg = rand_cfg(rng, 'C01')
        cfg['k'] = rng.choice([1, 1, 2])
        cfg['maxstep'] = 10 ** 7
        bin_t, un_t = [], []
        for x in allc:
            ur = g['un'](x)
            if ur:
                un_t.append({'x': idx[x], 'res': [{'c': idx.get(r.cat, 0), 'lab': r.op_string, 'sym': r.op_symbol} for r in ur]})
            for y in allc:
                rs = g['bin'](x, y)
                if rs:
                    bin_t.append({'x': idx[x], 'y': idx[y], 'res': [{'c': idx.get(r.cat, 0), 'lab': r.op_string, 'sym': r.op_symbol, 'hl': bool(r.head_is_left)} for r in rs]})
        hdr = {'g': {'N': n, 'K': K, 'C': len(allc), 'tag': [], 'dep': [], 'bin': bin_t, 'un': un_t, 'roots': [idx[c] for c in g['roots']],
                     'pen': cfg['pen8'], 'prune': cfg['prune'], 'usebeta': cfg['usebeta'], 'b16': cfg['b16'], 'words': ['w%d' % i for i in range(n)]},
               'k': cfg['k'], 'maxstep': cfg['maxstep']}
        events = []
        eid = 0
        for si in range(per_group):
            tag8, dep8 = make_scores(rng, n, K, rng.choice(['ties', 'small', 'wide']))
            toks = [Token.of_word('w%d' % i) for i in range(n)]
            log = []
            table = list(lex)
            for c in g['roots']:
                if c not in table:
                    table.append(c)
            h.rt.pops_clear()
            res = h.parsing.run([toks], [ScoringResult(np.array(tag8, dtype=np.float32) / 8, np.array(dep8, dtype=np.float32) / 8)], list(lex), list(g['roots']),
                                Recorder(g['bin'], log), Recorder(g['un'], log), unary_penalty=cfg['pen8'] / 8.0, beta=math.exp(-cfg['b16'] / 16.0),
                                use_beta=cfg['usebeta'], pruning_size=cfg['prune'], nbest=cfg['k'], max_step=cfg['maxstep'])[0]
            for c in log:
                if c not in table:
                    table.append(c)
            pops = h.rt.pops()
            if len(pops) > 150 or any(p['cat'] >= len(table) or table[p['cat']] not in idx for p in pops):
                continue
            eid += 1
            events.append({'e': 'matrices', 'id': eid, 'tag': tag8, 'dep': dep8})
            eid += 1
            events.append({'e': 'setup', 'id': eid})
            addr = {}
            nstored = 0
            for p in pops:
                eid += 1
                st = 0
                if not p['fin'] and p['stored']:
                    nstored += 1
                    addr[p['stored']] = nstored
                    st = nstored
                events.append({'e': 'pop', 'id': eid, 'fin': p['fin'], 'cat': idx[table[p['cat']]], 'start': p['start'] + 1, 'len': p['len'], 'head': p['head'] + 1,
                               'in': _exact8(p['in'], 'in'), 'out': _exact8(p['out'], 'out'), 'rule': p['rule'], 'stored': st,
                               'left': addr.get(p['left'], 0), 'right': addr.get(p['right'], 0)})
            failed = res[0].score == -float('inf')
            eid += 1
            events.append({'e': 'result', 'id': eid, 'failed': failed, 'scores': [] if failed else [_exact8(r.score, 'score') for r in res]})
            total_searches += 1
            total_pops += len(pops)
        if not events:
            continue
        tp = os.path.join(d, 'g%03d.ndjson' % gi)
        hp = os.path.join(d, 'g%03d.hdr.json' % gi)
        write_ndjson(tp, events)
        with open(hp, 'w') as f:
            json.dump(hdr, f)
        jobs.append((gi, tp, hp, events, g['kind']))
    import concurrent.futures as cf

    def one(job):
        gi, tp, hp, events, kind = job
        r = run_tlc('traces/AStarTrace.tla', workers=1, env={'TRACE_FILE': tp, 'HDR_FILE': hp}, timeout=1200, xss='256m')
        return job, r
    clauses, states, diverged_searches, inv = {}, 0, 0, []
    with cf.ThreadPoolExecutor(max_workers=NCPU) as ex:
        for job, r in ex.map(one, jobs):
            require_clean(r, 'AStarTrace group %d' % job[0])
            if r.postcondition_failed:
                raise Machinery('AStarTrace group %d: trace not consumed\n%s' % (job[0], r.out[-800:]))
            states += r.distinct
            if r.violated:
                inv.append({'group': job[0], 'grammar': job[4], 'invariant': r.violated})
            bad_ids = set()
            for (eid, clause, _k) in r.rejects():
                clauses[clause] = clauses.get(clause, 0) + 1
                bad_ids.add(eid)
            # count searches containing a rejected event
            cur_bad, seen_any = False, False
            for e in job[3]:
                if e['e'] == 'matrices':
                    if seen_any and cur_bad:
                        diverged_searches += 1
                    cur_bad, seen_any = False, True
                if e['id'] in bad_ids:
                    cur_bad = True
            if seen_any and cur_bad:
                diverged_searches += 1
    return {'searches': total_searches, 'agenda_pops_replayed_against_AStar_actions': total_pops, 'groups': len(jobs), 'states': states,
            'searches_deviating_from_AStar_tla': diverged_searches, 'deviation_clauses': clauses, 'invariants_violated_along_real_behaviours': inv}
