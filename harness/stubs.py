"""Stand-ins for third-party packages that are absent from this sandbox (DESIGN 2.1).
Importing this module (a) puts $VERIF_REPO first on sys.path, (b) installs a meta_path finder that
serves inert modules for an explicit whitelist of absent top-level packages and for depccg's own
neural-network loaders, (c) makes `tqdm.tqdm` the identity and `allennlp.common.params.Params.from_file`
a reader for the jsonnet subset of depccg/models/*.jsonnet."""
import sys
import types
import importlib.abc
import importlib.machinery

from .common import REPO

MISSING = {'six', 'cupy', 'nltk', 'yaml', 'simplejson', 'tqdm', 'chainer', 'allennlp', 'torch', 'spacy',
           'janome', 'google_drive_downloader', 'overrides', 'Cython'}
INERT_SUBMODULES = ('depccg.morpha', 'depccg.chainer.supertagger', 'depccg.allennlp.supertagger')


class _Any(object):
    def __init__(self, *a, **k):
        pass

    def __call__(self, *a, **k):
        return _Any()

    def __getattr__(self, n):
        if n.startswith('__'):
            raise AttributeError(n)
        return _Any()

    def __iter__(self):
        return iter(())

    def __mro_entries__(self, bases):
        return (object,)


class StubModule(types.ModuleType):
    def __getattr__(self, n):
        if n.startswith('__'):
            raise AttributeError(n)
        return _Any()


class Finder(importlib.abc.MetaPathFinder, importlib.abc.Loader):
    def find_spec(self, name, path, target=None):
        top = name.split('.')[0]
        if top in MISSING or name in INERT_SUBMODULES:
            return importlib.machinery.ModuleSpec(name, self, is_package=True)
        return None

    def create_module(self, spec):
        m = StubModule(spec.name)
        m.__path__ = []
        return m

    def exec_module(self, m):
        pass


_installed = False


def install():
    global _installed
    if _installed:
        return
    _installed = True
    if REPO in sys.path:
        sys.path.remove(REPO)
    sys.path.insert(0, REPO)
    for k in [k for k in sys.modules if k == 'depccg' or k.startswith('depccg.')]:
        del sys.modules[k]
    sys.meta_path.append(Finder())
    tq = types.ModuleType('tqdm')
    tq.tqdm = lambda it, **k: it
    sys.modules['tqdm'] = tq
    # functional stand-in for allennlp.common.params.Params
    from . import jsonnet

    class Params(dict):
        @classmethod
        def from_file(cls, path, *a, **k):
            return cls(jsonnet.load(str(path)))

    al = StubModule('allennlp'); al.__path__ = []
    alc = StubModule('allennlp.common'); alc.__path__ = []
    alp = StubModule('allennlp.common.params'); alp.__path__ = []
    alp.Params = Params
    alc.params = alp
    alc.Params = Params
    al.common = alc
    sys.modules['allennlp'] = al
    sys.modules['allennlp.common'] = alc
    sys.modules['allennlp.common.params'] = alp


install()
