"""Running TLC and reading what it printed."""
import os
import re
import json
import shutil
import subprocess
import time
import tempfile

from .common import BUILD, SPEC, Machinery, NCPU

CP = '/opt/veriftools/tla/tla2tools.jar:/opt/veriftools/tla/CommunityModules-deps.jar'

_states_re = re.compile(r'^(\d+) states generated, (\d+) distinct states found, (\d+) states left on queue')
_sim_re = re.compile(r'^The number of states generated: (\d+)')


class TLCResult(object):
    def __init__(self):
        self.rc = None
        self.out = ''
        self.generated = 0
        self.distinct = 0
        self.prints = []          # strings printed by PrintT("...")
        self.violated = []        # names of violated invariants / properties
        self.errors = []          # TLC error blocks
        self.wall = 0.0
        self.cmd = ''
        self.postcondition_failed = False
        self.timed_out = False

    def rejects(self):
        """'REJECT <id> <clause> <key...>' strings -> (id, clause, key)"""
        out = []
        for p in self.prints:
            if p.startswith('REJECT '):
                parts = p.split(' ', 3)
                out.append((int(parts[1]), parts[2], parts[3] if len(parts) > 3 else ''))
        return out

    def tagged(self, tag):
        out = []
        for p in self.prints:
            if p.startswith(tag + ' '):
                out.append(p[len(tag) + 1:])
        return out

    def ok(self):
        return self.rc == 0 and not self.violated and not self.errors and not self.postcondition_failed


def _unquote(line):
    # PrintT of a TLA+ string prints it with quotes and TLA+ escapes (\" and \\)
    s = line[1:-1]
    res, i = [], 0
    while i < len(s):
        if s[i] == '\\' and i + 1 < len(s):
            nxt = s[i + 1]
            res.append({'n': '\n', 't': '\t', '"': '"', '\\': '\\'}.get(nxt, '\\' + nxt))
            i += 2
        else:
            res.append(s[i])
            i += 1
    return ''.join(res)


def run_tlc(module, cfg=None, workers=None, env=None, timeout=900, simulate=None, depth=None,
            seed=None, extra=None, deadlock=None, xss='64m', xmx='8g', depth_first=False, coverage=False):
    """module: path of the .tla (absolute, or relative to /verif/spec).  cfg likewise (default: same stem).
    Never raises for property violations; raises Machinery for crashes / timeouts of the tool."""
    if not os.path.isabs(module):
        module = os.path.join(SPEC, module)
    if cfg is None:
        cfg = module[:-4] + '.cfg'
    elif not os.path.isabs(cfg):
        cfg = os.path.join(SPEC, cfg)
    moddir = os.path.dirname(module)
    os.makedirs(os.path.join(BUILD, 'tlc'), exist_ok=True)
    meta = tempfile.mkdtemp(prefix='m', dir=os.path.join(BUILD, 'tlc'))
    java = ['java', '-XX:+UseParallelGC', '-Xss' + xss, '-Xmx' + xmx, '-cp', CP]
    if depth_first:
        java.append('-Dtlc2.tool.queue.IStateQueue=StateDeque')
    # modules in spec/ and spec/traces see each other through TLA-Library
    libs = [SPEC, os.path.join(SPEC, 'traces')]
    java.append('-DTLA-Library=' + os.pathsep.join(libs))
    cmd = java + ['tlc2.TLC', '-metadir', meta, '-noGenerateSpecTE', '-config', cfg,
                  '-workers', str(workers or 1)]
    if simulate:
        cmd += ['-simulate', simulate]
    if depth:
        cmd += ['-depth', str(depth)]
    if seed is not None:
        cmd += ['-seed', str(seed)]
    if deadlock is False:
        cmd += ['-deadlock']
    if coverage:
        cmd += ['-coverage', '1']
    if extra:
        cmd += list(extra)
    cmd.append(module)
    e = dict(os.environ)
    if env:
        e.update({k: str(v) for k, v in env.items()})
    r = TLCResult()
    r.cmd = ' '.join(cmd)
    t0 = time.time()
    # TLC 1.8 has been observed to keep running for minutes after it has printed an invariant violation and its
    # error trace (huge initial-state sets); the output is therefore streamed and the process is ended once a
    # violation has been reported and nothing more has been printed for a grace period.
    import threading
    chunks, state = [], {'viol_at': None, 'last': time.time()}
    try:
        p = subprocess.Popen(cmd, cwd=moddir, env=e, stdout=subprocess.PIPE, stderr=subprocess.STDOUT)

        def reader():
            for raw in iter(p.stdout.readline, b''):
                chunks.append(raw)
                state['last'] = time.time()
                if state['viol_at'] is None and (raw.startswith(b'Error: Invariant') or raw.startswith(b'Error: Action property')
                                                 or raw.startswith(b'Error: Temporal properties')):
                    state['viol_at'] = time.time()
        th = threading.Thread(target=reader, daemon=True)
        th.start()
        killed = False
        while True:
            try:
                p.wait(timeout=1.0)
                break
            except subprocess.TimeoutExpired:
                now = time.time()
                if state['viol_at'] is not None and now - state['last'] > 15:
                    p.kill()
                    killed = True
                    p.wait()
                    break
                if now - t0 > timeout:
                    p.kill()
                    p.wait()
                    r.timed_out = True
                    break
        th.join(timeout=5)
        r.rc = 12 if killed else (-1 if r.timed_out else p.returncode)
        r.out = b''.join(chunks).decode('utf-8', 'replace')
    finally:
        shutil.rmtree(meta, ignore_errors=True)
    r.wall = time.time() - t0
    lines = r.out.split('\n')
    i = 0
    while i < len(lines):
        ln = lines[i].rstrip('\r')
        m = _states_re.match(ln)
        if m:
            r.generated, r.distinct = int(m.group(1)), int(m.group(2))
        m = _sim_re.match(ln)
        if m:
            r.generated = max(r.generated, int(m.group(1)))
        if len(ln) >= 2 and ln[0] == '"' and ln[-1] == '"':
            r.prints.append(_unquote(ln))
        elif ln.startswith('Error:'):
            blk = [ln]
            j = i + 1
            while j < len(lines) and lines[j].strip() and not lines[j].startswith(('Error:', 'Finished', 'State ')):
                blk.append(lines[j])
                j += 1
            txt = '\n'.join(blk)
            mi = re.search(r'Invariant (\w+) is violated', txt)
            ma = re.search(r'Action property (\w+) is violated', txt)
            mt = re.search(r'Temporal properties were violated', txt)
            if mi:
                r.violated.append(mi.group(1))
            elif ma:
                r.violated.append(ma.group(1))
            elif mt:
                r.violated.append('temporal')
            elif 'Deadlock reached' in txt:
                r.violated.append('Deadlock')
            elif 'postcondition' in txt.lower() or 'POSTCONDITION' in txt:
                r.postcondition_failed = True
            elif 'behavior up to this point' in txt or 'The error occurred when TLC was evaluating' in txt:
                pass
            else:
                r.errors.append(txt)
        i += 1
    if r.timed_out:
        raise Machinery('TLC timed out after %ss: %s' % (timeout, r.cmd))
    return r


def require_clean(r, what):
    """TLC must have finished without evaluation errors (violated invariants are reported separately)."""
    if r.errors or r.rc not in (0, 12, 13) and not r.violated and not r.postcondition_failed:
        raise Machinery('%s: TLC failed rc=%s\n%s\n%s' % (what, r.rc, '\n'.join(r.errors)[:900], r.out[-600:]))
    return r


def write_ndjson(path, records):
    with open(path, 'w') as f:
        for rec in records:
            f.write(json.dumps(rec, ensure_ascii=True, separators=(',', ':')))
            f.write('\n')
