"""Reader for the jsonnet subset used by depccg/models/*.jsonnet: objects with bare or quoted keys,
arrays, single/double-quoted strings, numbers, true/false/null, trailing commas, comments,
`local x = expr;`, `(import 'f')`, `.field`.  Independent of depccg."""
import os
import re

_tok = re.compile(r"""\s+|//[^\n]*|\#[^\n]*|/\*.*?\*/|(?P<str>'(?:\\.|[^'\\])*'|"(?:\\.|[^"\\])*")|(?P<num>-?\d+(?:\.\d+)?(?:[eE][-+]?\d+)?)|(?P<id>[A-Za-z_]\w*)|(?P<p>[{}\[\](),:;=.+])""", re.S)
_esc = {'n': '\n', 't': '\t', 'r': '\r', 'b': '\b', 'f': '\f', '/': '/', '\\': '\\', '"': '"', "'": "'"}


def _unescape(s):
    out, i = [], 0
    while i < len(s):
        c = s[i]
        if c == '\\':
            n = s[i + 1]
            if n == 'u':
                out.append(chr(int(s[i + 2:i + 6], 16)))
                i += 6
                continue
            out.append(_esc.get(n, n))
            i += 2
        else:
            out.append(c)
            i += 1
    return ''.join(out)


def tokenize(text):
    pos, toks = 0, []
    while pos < len(text):
        m = _tok.match(text, pos)
        if not m:
            raise ValueError('jsonnet: cannot tokenize at %d: %r' % (pos, text[pos:pos + 30]))
        pos = m.end()
        if m.lastgroup:
            toks.append((m.lastgroup, m.group(m.lastgroup)))
    return toks


class _P(object):
    def __init__(self, toks, base):
        self.t, self.i, self.base, self.env = toks, 0, base, {}

    def peek(self):
        return self.t[self.i] if self.i < len(self.t) else (None, None)

    def next(self):
        x = self.peek()
        self.i += 1
        return x

    def expect(self, v):
        k, x = self.next()
        if x != v:
            raise ValueError('jsonnet: expected %r got %r' % (v, x))

    def top(self):
        while self.peek() == ('id', 'local'):
            self.next()
            name = self.next()[1]
            self.expect('=')
            self.env[name] = self.expr()
            self.expect(';')
        if self.peek()[0] is None:
            return {}
        return self.expr()

    def expr(self):
        v = self.primary()
        while True:
            if self.peek() == ('p', '.'):
                self.next()
                name = self.next()[1]
                # an emptied file (tokens.en.jsonnet in this snapshot) evaluates to {}: its fields read as []
                v = [] if (v == {} and name not in v) else v[name]
            elif self.peek() == ('p', '+'):
                self.next()
                w = self.primary()
                v = (dict(v, **w) if isinstance(v, dict) else v + w)
            else:
                return v

    def primary(self):
        k, x = self.next()
        if k == 'str':
            return _unescape(x[1:-1])
        if k == 'num':
            return float(x) if re.search(r'[.eE]', x) else int(x)
        if k == 'id':
            if x == 'true':
                return True
            if x == 'false':
                return False
            if x == 'null':
                return None
            if x == 'import':
                path = self.primary()
                return load(os.path.join(self.base, path))
            return self.env[x]
        if x == '(':
            v = self.expr()
            self.expect(')')
            return v
        if x == '[':
            out = []
            while self.peek() != ('p', ']'):
                out.append(self.expr())
                if self.peek() == ('p', ','):
                    self.next()
            self.next()
            return out
        if x == '{':
            out = {}
            while self.peek() != ('p', '}'):
                kk, key = self.next()
                if kk == 'str':
                    key = _unescape(key[1:-1])
                self.expect(':')
                out[key] = self.expr()
                if self.peek() == ('p', ','):
                    self.next()
            self.next()
            return out
        raise ValueError('jsonnet: unexpected %r' % (x,))


_cache = {}


def load(path):
    path = os.path.abspath(path)
    st = os.stat(path)
    key = (path, st.st_mtime_ns, st.st_size)
    if key not in _cache:
        with open(path, encoding='utf-8') as f:
            text = f.read()
        _cache[key] = _P(tokenize(text), os.path.dirname(path)).top()
    return _cache[key]
