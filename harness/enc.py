"""Projections of depccg objects to the JSON values the TLA+ modules use (DESIGN 4.3), the inverse
(building depccg objects with *constructors*, never through Category.parse), and an independent lexer
for category text."""
from . import stubs  # noqa: F401  (sys.path + stand-ins)

NOF = {'t': 'U', 'v': ''}
SPLIT = set('[]()/\\|<>')


# ---------------------------------------------------------------- values -> JSON
def enc_feat(f):
    from depccg.cat import UnaryFeature, TernaryFeature
    if isinstance(f, UnaryFeature):
        return {'t': 'U', 'v': f.value if f.value is not None else ''}
    if isinstance(f, TernaryFeature):
        return {'t': 'T', 'kv': [{'k': k, 'v': v, 'x': v.startswith('X')} for k, v in (f.kv1, f.kv2, f.kv3)]}
    raise TypeError('not a feature: %r' % (f,))


def enc_cat(c):
    from depccg.cat import Atom, Functor
    if isinstance(c, Atom):
        return {'k': 'A', 'b': c.base, 'f': enc_feat(c.feature)}
    if isinstance(c, Functor):
        if not isinstance(c.slash, str):
            raise TypeError('functor whose slash is not text: %r' % (c.slash,))
        return {'k': 'F', 'l': enc_cat(c.left), 's': c.slash, 'r': enc_cat(c.right)}
    raise TypeError('not a category: %r' % (c,))


DUMMY = {'k': 'A', 'b': '?', 'f': NOF}


# ---------------------------------------------------------------- JSON -> values (constructors only)
def dec_feat(j):
    from depccg.cat import UnaryFeature, TernaryFeature
    if j['t'] == 'U':
        return UnaryFeature(j['v'] if j['v'] != '' else None)
    return TernaryFeature(*[(e['k'], e['v']) for e in j['kv']])


def dec_cat(j):
    from depccg.cat import Atom, Functor
    if j['k'] == 'A':
        return Atom(j['b'], dec_feat(j['f']))
    return Functor(dec_cat(j['l']), j['s'], dec_cat(j['r']))


# ---------------------------------------------------------------- text <-> tokens (independent of depccg)
def feat_of_text(t):
    """the '=/,' rule of the statement: three-part iff the text has both '=' and ','"""
    if '=' in t and ',' in t:
        kv = []
        for part in t.split(','):
            k, _, v = part.partition('=')
            kv.append({'k': k, 'v': v, 'x': v.startswith('X')})
        if len(kv) == 3:
            return {'t': 'T', 'kv': kv}
    return {'t': 'U', 'v': t}


def lex_cat(text):
    """-> (tokens, had_blanks).  A token right after '[' is a feature token and carries its structure."""
    toks, cur, blanks = [], '', False

    def flush():
        nonlocal cur
        if cur:
            isfeat = bool(toks) and toks[-1]['s'] == '['
            toks.append({'s': cur, 'f': feat_of_text(cur) if isfeat else NOF})
            cur = ''
    for ch in text:
        if ch in SPLIT:
            flush()
            toks.append({'s': ch, 'f': NOF})
        elif ch.isspace():
            blanks = True
            flush()
        else:
            cur += ch
    flush()
    return toks, blanks


def feat_text(f):
    if f['t'] == 'U':
        return f['v']
    return ','.join('%s=%s' % (e['k'], e['v']) for e in f['kv'])


def show_cat(j):
    """canonical text of a projected value (harness-side, for keys and messages only)"""
    if j['k'] == 'A':
        ft = feat_text(j['f'])
        return j['b'] + ('[%s]' % ft if ft else '')
    def op(c):
        return '(%s)' % show_cat(c) if c['k'] == 'F' else show_cat(c)
    return op(j['l']) + j['s'] + op(j['r'])


def toks_text(toks, rng=None):
    """join tokens; with rng, 0-2 blanks are put around brackets and slashes (never inside [..])"""
    out, infeat = [], False
    for i, t in enumerate(toks):
        s = t['s']
        if s == '[':
            infeat = True
        if rng is not None and not infeat and i > 0 and (s in '()<>/\\|' or toks[i - 1]['s'] in '()<>/\\|'):
            out.append(' ' * rng.choice((0, 0, 1, 2)))
        out.append(s)
        if s == ']':
            infeat = False
    if rng is not None:
        # blanks before and after the whole text (a bare atom has no bracket or slash to put blanks around)
        out.insert(0, ' ' * rng.choice((0, 0, 0, 1, 2)))
        out.append(' ' * rng.choice((0, 0, 0, 1, 2)))
    return ''.join(out)


# ---------------------------------------------------------------- independent reader text -> projected value
def parse_toks(toks):
    """recursive descent over lexer tokens; used for rule *patterns* and harness-side bookkeeping only
    (never as the oracle: that is CatReaderOps!Read in TLA+)."""
    pos = [0]

    def peek():
        return toks[pos[0]]['s'] if pos[0] < len(toks) else None

    def take():
        t = toks[pos[0]]
        pos[0] += 1
        return t

    def operand():
        s = peek()
        if s in ('(', '<'):
            take()
            c = cat()
            close = take()['s']
            if (s, close) not in (('(', ')'), ('<', '>')):
                raise ValueError('bracket mismatch')
            return c
        base = take()['s']
        if peek() == '[':
            take()
            f = take()['f']
            if take()['s'] != ']':
                raise ValueError('feature not closed')
            return {'k': 'A', 'b': base, 'f': f}
        return {'k': 'A', 'b': base, 'f': NOF}

    def cat():
        l = operand()
        if peek() in ('/', '\\', '|'):
            s = take()['s']
            r = operand()
            return {'k': 'F', 'l': l, 's': s, 'r': r}
        return l
    c = cat()
    if pos[0] != len(toks):
        raise ValueError('trailing tokens')
    return c


def parse_text(text):
    return parse_toks(lex_cat(text)[0])


def leaves(j):
    return [j] if j['k'] == 'A' else leaves(j['l']) + leaves(j['r'])
