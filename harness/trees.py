"""Derivations for the rendering family: random grammar-licensed derivations built with the real rule
functions over small lexicons, arbitrary well-formed trees, real Tree objects built with the public
constructors, and the projection of real Tree / Token objects to the JSON the TLA+ modules use."""
from . import enc, gen
from . import stubs  # noqa

AWKWARD = ['(', ')', '[', ']', '{', '}', '<', '>', '&', '"', "'", '/', '|', ',', '.', ':', ';', '-', '_', '%', 'a>b', '<x>', 'a/b', 'x&y',
           "can't", '"q"', 'C++', '100%', '-LRB-', 'a_b', '日本', '語', 'é', '\U0001F600', 'café', 'A|B', 'x:y', '&amp;', 'a.b', '--', 'x)[conj]', 'y][conj]', 'f(x)', 'T>', '<L', 'a\\b', 'wow!', '!', '9am', 'U.S.', '_(', '_.x', '_-', '):', ')a', '(b', '))x', '()', '[]', '{}', '){', '}[', '(){}']
PLAIN = ['John', 'loves', 'Mary', 'the', 'dog', 'runs', 'and', 'cat', 'quickly', 'of', 'Tokyo', 'saw']


# pieces that mean something to one format or another (headers, field marks, escapes, entity and bracket characters)
FRAGMENTS = ['ID=', 'ID', '=', '#', '(<L', '(<T', '<L', '<T', 'log', 'POS', 'XX', '*', '@', '+', '0', '1', 'a', 'B', 'x', '語', 'é', '_', '-', '.',
             ',', ':', ';', '"', "'", '&', '<', '>', '|', '/', '[', ']', '{', '}', '(', ')', '%', '!', '?', '$', '^', '~', '`', '-RRB-', 'lt;', '&#']


def words_for(rng, n, awkward=0.4, exclude=''):
    out = []
    for _ in range(n):
        r = rng.random()
        if r < awkward * 0.25:
            w = ''.join(rng.choice(FRAGMENTS) for _ in range(rng.randint(2, 3)))
        else:
            w = rng.choice(AWKWARD) if r < awkward else rng.choice(PLAIN)
        if any(ch in w for ch in exclude):
            w = rng.choice(PLAIN)
        out.append(w)
    return out


def en_token(rng, word):
    return {'word': word, 'lemma': rng.choice([word.lower(), 'XX', 'be', word, '*', '']), 'pos': rng.choice(['NN', 'VBZ', 'DT', 'IN', ',', '.', 'XX', '_', 'PRP$', '-LRB-', '``', '(', ')', '-RRB-', '{', ']', 'a>b']),
            'entity': rng.choice(['O', 'I-PER', 'XX']), 'chunk': rng.choice(['I-NP', 'I-VP', 'XX'])} if rng.random() < 0.8 else _with_extra(rng, {
                'word': word, 'lemma': word.lower(), 'pos': 'NN', 'entity': 'O', 'chunk': 'I-NP'})


def _with_extra(rng, t):
    """tokens may carry further annotations of the caller's (a sense tag ...); names that a format uses for its own bookkeeping
    (id, start, span, cat) are added only where the format under test does not use them"""
    if rng.random() < 0.1:
        t['sense'] = rng.choice(['s1', 'x&y', ''])
    return t


def en_token_sparse(rng, word):
    """tokens as callers may build them by hand: only some attributes present"""
    t = en_token(rng, word)
    for k in ('lemma', 'pos', 'entity', 'chunk'):
        if rng.random() < 0.4:
            del t[k]
    return t


def ja_token(rng, word):
    t = {'word': word, 'pos': rng.choice(['名詞', '動詞', 'noun']), 'pos1': rng.choice(['*', '一般', 'g']),
         'pos2': rng.choice(['*', '*', '人名', 'p2']), 'pos3': rng.choice(['*', '*', '名', 'p3']), 'inflectionForm': rng.choice(['*', '基本形']), 'inflectionType': rng.choice(['*', 'v5'])}
    if rng.random() < 0.5:
        # '*' is what the Japanese tokenizer writes for a word without a dictionary form
        t['base'] = rng.choice([word, word, '*'])
    if rng.random() < 0.12:
        # annotators keep the raw surface form next to the (normalised) word: the word of the derivation is `word`
        t['surf'] = rng.choice(['ﾒﾛｽ', word + 'x', 'raw'])
    return t


def leaf(cat, tok):
    return {'k': 'L', 'cat': cat, 'lab': 'lex', 'sym': '<lex>', 'hl': True, 'tok': tok, 'kids': []}


def unary(cat, kid, lab='lex', sym='<un>'):
    return {'k': 'U', 'cat': cat, 'lab': lab, 'sym': sym, 'hl': True, 'tok': {}, 'kids': [kid]}


def binary(cat, l, r, lab, sym, hl):
    return {'k': 'B', 'cat': cat, 'lab': lab, 'sym': sym, 'hl': bool(hl), 'tok': {}, 'kids': [l, r]}


def n_leaves(t):
    return 1 if t['k'] == 'L' else sum(n_leaves(k) for k in t['kids'])


# ------------------------------------------------------------------ grammar-licensed derivations
_cache = {}


def _grammar(lang):
    if lang not in _cache:
        from .workers import rules_worker
        from depccg.grammar import en, ja
        fb = {'en': en, 'ja': ja}[lang].apply_binary_rules
        fu = rules_worker.params(lang)[1]
        _cache[lang] = (fb, fu)
    return _cache[lang]


def licensed_tree(rng, lang, n, lexicon, tokfn, words, want_unary=0.3):
    """random bottom-up derivation with the real rule functions; returns a tree (dict) or None"""
    from depccg.cat import Category
    fb, fu = _grammar(lang)
    for attempt in range(30):
        items = []
        for i in range(n):
            c = Category.parse(rng.choice(lexicon))
            items.append((c, leaf(enc.enc_cat(c), tokfn(rng, words[i]))))
        stuck = False
        while len(items) > 1 and not stuck:
            # maybe a unary step on a random item (never at the root of a multi-word sentence)
            if rng.random() < want_unary:
                j = rng.randrange(len(items))
                rs = fu(items[j][0])
                if rs:
                    r = rng.choice(rs)
                    items[j] = (r.cat, unary(enc.enc_cat(r.cat), items[j][1], r.op_string, r.op_symbol))
                    # the search applies unary rules to the result of a unary rule too (N -> NP -> S/(S\NP)): chains
                    rs2 = fu(items[j][0])
                    if rs2 and rng.random() < 0.6:
                        r = rng.choice(rs2)
                        items[j] = (r.cat, unary(enc.enc_cat(r.cat), items[j][1], r.op_string, r.op_symbol))
            cands = []
            for j in range(len(items) - 1):
                rs = fb(items[j][0], items[j + 1][0])
                for r in rs:
                    cands.append((j, r))
            if not cands:
                stuck = True
                break
            j, r = rng.choice(cands)
            node = binary(enc.enc_cat(r.cat), items[j][1], items[j + 1][1], r.op_string, r.op_symbol, r.head_is_left)
            items[j:j + 2] = [(r.cat, node)]
        if not stuck and len(items) == 1:
            if n == 1 and rng.random() < want_unary:
                rs = fu(items[0][0])
                if rs:
                    r = rng.choice(rs)
                    return unary(enc.enc_cat(r.cat), items[0][1], r.op_string, r.op_symbol)
            return items[0][1]
    return None


EN_LEXICON = ['NP', 'N', 'NP[nb]/N', 'S[dcl]\\NP', '(S[dcl]\\NP)/NP', '(S\\NP)\\(S\\NP)', 'N/N', 'conj', ',', '.', 'PP/NP', '(NP\\NP)/NP',
              '(S[dcl]\\NP)/PP', 'S[b]\\NP', '(S[dcl]\\NP)/(S[b]\\NP)', '((S\\NP)\\(S\\NP))/NP', 'NP\\NP', 'S[ng]\\NP', 'S[pss]\\NP', 'LRB', 'RRB',
              '(S[to]\\NP)/(S[b]\\NP)', 'S[dcl]/S[dcl]', ';', ':', '(S/S)/NP', 'S/S', 'S[adj]\\NP', '(S[dcl]\\NP)/(S[adj]\\NP)', 'PP', 'S[em]/S[dcl]',
              '(S[X]\\NP)\\(S[X]\\NP)', '((S[X]\\NP)\\(S[X]\\NP))/((S[X]\\NP)\\(S[X]\\NP))', 'S[X]/S[X]', '(S[X]/S[X])/(S[X]/S[X])', 'NP[nb]/N', '(NP[nb]/N)\\NP']
JA_LEXICON = ['NP[case=nc,mod=nm,fin=f]', 'NP[case=ga,mod=nm,fin=f]', 'NP[case=o,mod=nm,fin=f]', 'S[mod=nm,form=base,fin=f]\\NP[case=ga,mod=nm,fin=f]',
              '(S[mod=nm,form=base,fin=f]\\NP[case=ga,mod=nm,fin=f])\\NP[case=o,mod=nm,fin=f]', 'NP[case=ga,mod=nm,fin=f]\\NP[case=nc,mod=nm,fin=f]',
              'NP[case=o,mod=nm,fin=f]\\NP[case=nc,mod=nm,fin=f]', 'S[mod=nm,form=base,fin=t]\\S[mod=nm,form=base,fin=f]',
              'S[mod=adn,form=base,fin=f]\\NP[case=ga,mod=nm,fin=f]', 'S[mod=adn,form=base,fin=f]', 'S[mod=adv,form=cont,fin=f]',
              'S[mod=adv,form=cont,fin=f]\\NP[case=ga,mod=nm,fin=f]', 'NP[case=nc,mod=X1,fin=X2]/NP[case=nc,mod=X1,fin=X2]',
              'S[mod=nm,form=cont,fin=f]\\NP[case=ga,mod=nm,fin=f]', 'S[mod=nm,form=base,fin=f]\\S[mod=nm,form=cont,fin=f]',
              'S[mod=nm,form=base,fin=f]', 'S[mod=X1,form=X2,fin=X3]/S[mod=X1,form=X2,fin=X3]', 'S[mod=nm,form=base,fin=t]',
              '(S[mod=nm,form=base,fin=f]\\NP[case=ga,mod=nm,fin=f])/(S[mod=nm,form=base,fin=f]\\NP[case=ga,mod=nm,fin=f])']


# ------------------------------------------------------------------ arbitrary well-formed trees
def arbitrary_tree(rng, n, catpool, tokfn, words, labels, unary_p=0.25, top=True, pos=None):
    if pos is None:
        pos = [0]
    if n == 1:
        i = pos[0]
        pos[0] += 1
        t = leaf(rng.choice(catpool), tokfn(rng, words[i]))
    else:
        m = rng.randint(1, n - 1)
        l = arbitrary_tree(rng, m, catpool, tokfn, words, labels, unary_p, False, pos)
        r = arbitrary_tree(rng, n - m, catpool, tokfn, words, labels, unary_p, False, pos)
        lab, sym = rng.choice(labels['binary'])
        t = binary(rng.choice(catpool), l, r, lab, sym, rng.random() < 0.5)
    if rng.random() < unary_p and not (top and n > 1):
        lab, sym = rng.choice(labels['unary'])
        t = unary(rng.choice(catpool), t, lab, sym)
        if rng.random() < 0.3:          # a unary step directly on a unary step
            lab, sym = rng.choice(labels['unary'])
            t = unary(rng.choice(catpool), t, lab, sym)
    return t


EN_LABELS = {'binary': [('fa', '>'), ('ba', '<'), ('fc', '>B'), ('bx', '<B'), ('gfc', '>B'), ('gbx', '<B'), ('conj', '<Φ>'), ('lp', '<lp>'),
                        ('rp', '<rp>'), ('unk', '<unk>')],
             'unary': [('lex', '<un>'), ('tr', '<un>')]}
JA_LABELS = {'binary': [('fa', '>'), ('ba', '<'), ('fc', '>B'), ('bx', '<B1'), ('bx', '<B2'), ('bx', '<B3'), ('bx', '<B4'), ('fx', '>Bx1'), ('fx', '>Bx2'),
                        ('fx', '>Bx3'), ('other', 'SSEQ')],
             'unary': [('ADNext', 'ADNext'), ('ADNint', 'ADNint'), ('ADV0', 'ADV0'), ('ADV1', 'ADV1'), ('ADV2', 'ADV2'), ('OTHER', 'OTHER')]}


# ------------------------------------------------------------------ real objects
def build_real(t, shared=None, pos=None):
    """shared: a list of Token objects to put on the leaves in order (the parser builds the leaves of all n-best trees of a
    sentence from the same Token objects); None: fresh Token objects"""
    from depccg.tree import Tree
    from depccg.types import Token
    if pos is None:
        pos = [0]
    cat = enc.dec_cat(t['cat'])
    if t['k'] == 'L':
        i = pos[0]
        pos[0] += 1
        if shared is not None:
            while len(shared) <= i:
                shared.append(None)
            if shared[i] is None or dict(shared[i]) != t['tok']:
                shared[i] = Token(**t['tok'])
            return Tree.make_terminal(shared[i], cat)
        return Tree.make_terminal(Token(**t['tok']), cat)
    if t['k'] == 'U':
        return Tree.make_unary(cat, build_real(t['kids'][0], shared, pos), t['lab'], t['sym'])
    return Tree.make_binary(cat, build_real(t['kids'][0], shared, pos), build_real(t['kids'][1], shared, pos), t['lab'], t['sym'], t['hl'])


def cps(s):
    return [ord(ch) for ch in s]


def enc_token(tok):
    """token dict -> sorted attribute list [{k, v, cp}] (all values strings)"""
    return [{'k': str(k), 'v': str(tok[k]), 'cp': cps(str(tok[k]))} for k in sorted(tok)]


def proj_real(tree):
    """projection of a real Tree (every field read from the object)"""
    cat = enc.enc_cat(tree.cat)
    if tree.is_leaf:
        return {'k': 'L', 'cat': cat, 'lab': tree.op_string, 'sym': tree.op_symbol, 'hl': bool(tree.head_is_left), 'tok': enc_token(dict(tree.token)), 'kids': []}
    kids = [proj_real(c) for c in tree.children]
    return {'k': 'U' if len(kids) == 1 else 'B', 'cat': cat, 'lab': tree.op_string, 'sym': tree.op_symbol, 'hl': bool(tree.head_is_left), 'tok': [], 'kids': kids}


# categories that only arbitrary (not grammar-licensed) English trees carry: CCGbank-style conjunction features
EN_ARBITRARY_EXTRA = ['NP[conj]', 'N[conj]', 'N/N[conj]', 'S[dcl]\\NP[conj]', 'NP[conj]/N', '(S[dcl]\\NP[conj])/NP']
# feature-less categories both shipped grammars combine (with different labels and head directions)
SHARED_LEXICON = ['S', 'NP', 'S/S', 'S\\NP', '(S\\NP)\\NP', 'S\\S', 'NP/NP', '(S\\NP)/NP', 'NP\\NP', 'S/NP', '(S\\NP)/(S\\NP)']


def make_batch(rng, lang, nsent=None, nbest=None, awkward=0.4, exclude='', licensed_p=0.6, maxlen=5, sparse=False, lexicon=None):
    """-> list (sentences) of lists (n-best) of tree dicts; all trees of one sentence share the tokens"""
    from depccg.cat import Category
    tokfn = (en_token_sparse if sparse else en_token) if lang == 'en' else ja_token
    lexicon = lexicon or (EN_LEXICON if lang == 'en' else JA_LEXICON)
    labels = EN_LABELS if lang == 'en' else JA_LABELS
    catpool = [enc.parse_text(s) for s in lexicon + (EN_ARBITRARY_EXTRA if lang == 'en' else [])]
    nsent = nsent or rng.randint(1, 3)
    batch = []
    for s in range(nsent):
        n = rng.randint(1, maxlen)
        words = words_for(rng, n, awkward, exclude)
        twin = None
        if n >= 2 and rng.random() < 0.2:
            # the same token twice in one sentence ("the dog sees the dog"): equal in every attribute, two positions all the same
            twin = tuple(rng.sample(range(n), 2))
            words[twin[1]] = words[twin[0]]
        k = nbest or rng.randint(1, 3)
        trees = []
        toks = None
        for b in range(k):
            t = None
            if rng.random() < licensed_p:
                t = licensed_tree(rng, lang, n, lexicon, tokfn, words)
            lic = t is not None
            if t is None:
                t = arbitrary_tree(rng, n, catpool, tokfn, words, labels)
            t['licensed'] = lic
            # all n-best trees of a sentence are over the same token objects' values
            lv = leaves_of(t)
            if toks is None:
                if twin:
                    lv[twin[1]]['tok'] = dict(lv[twin[0]]['tok'])
                toks = [x['tok'] for x in lv]
            else:
                for x, tk in zip(lv, toks):
                    x['tok'] = dict(tk)
            trees.append(t)
        batch.append(trees)
    return batch


def leaves_of(t):
    return [t] if t['k'] == 'L' else [x for k in t['kids'] for x in leaves_of(k)]


def real_batch(batch, rng=None):
    """tree dicts -> List[List[ScoredTree]] with dyadic scores, best first"""
    from depccg.tree import ScoredTree
    out = []
    for trees in batch:
        sc = 0.0
        lst = []
        # as in parser output, the n-best trees of a sentence share their Token objects (in two of three batches)
        shared = [] if (rng is None or rng.random() < 0.67) else None
        for t in trees:
            # non-increasing: now and then two derivations of a sentence have the same score
            sc -= 0.125 * ((0 if (lst and rng.random() < 0.2) else 1 + rng.randrange(8)) if rng else 1)
            lst.append(ScoredTree(tree=build_real(t, shared), score=sc))
        out.append(lst)
    return out


# ------------------------------------------------------------------ the same children under different rules
TWIN_PAIRS = {'en': [(',', 'NP'), ('LRB', 'NP'), (',', 'S[ng]\\NP'), ('conj', 'NP'), (',', 'S[dcl]\\NP'), (';', 'S[dcl]'), ('conj', 'S[dcl]'), (',', ','),
                     (':', ':'), ('LRB', 'S[dcl]'), (',', 'N'), ('conj', 'N/N')],
              'ja': [('S[mod=nm,form=base,fin=f]', 'S[mod=nm,form=base,fin=f]\\S[mod=nm,form=base,fin=f]'),
                     ('S[mod=nm,form=base,fin=f]/S[mod=nm,form=base,fin=f]', 'S[mod=nm,form=base,fin=f]')]}


def twin_batch(rng, lang):
    """a batch whose sentences are two-word derivations over ONE pair of child categories, one sentence per result the real
    rule function returns for that pair (different parent categories / labels over the same children), in random order;
    None when no pair of this language has several results"""
    from depccg.cat import Category
    fb, _ = _grammar(lang)
    tokfn = en_token if lang == 'en' else ja_token
    cands = []
    for a, b in TWIN_PAIRS[lang]:
        x, y = Category.parse(a), Category.parse(b)
        rs = fb(x, y)
        if len({(str(r.cat), r.op_string) for r in rs}) >= 2:
            cands.append((x, y, rs))
    if not cands:
        return None
    x, y, rs = rng.choice(cands)
    rs = list(rs)
    rng.shuffle(rs)
    batch = []
    for r in rs + rs[:1]:
        w = words_for(rng, 2, 0.2, exclude='/{}()<>\\')
        t = binary(enc.enc_cat(r.cat), leaf(enc.enc_cat(x), tokfn(rng, w[0])), leaf(enc.enc_cat(y), tokfn(rng, w[1])), r.op_string, r.op_symbol, r.head_is_left)
        t['licensed'] = True
        batch.append([t])
    return batch
