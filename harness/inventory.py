"""Category strings shipped with depccg (model files and test lists), read without depccg code."""
import os
from .common import REPO
from . import jsonnet

M = os.path.join(REPO, 'depccg', 'models')


def _load(name):
    return jsonnet.load(os.path.join(M, name))


def shipped_strings():
    """-> dict source -> list of category strings (as written in the files)"""
    out = {}
    for lang in ('en', 'en_rebank', 'ja'):
        out['targets.' + lang] = list(_load('targets.%s.jsonnet' % lang)['targets'])
        out['seen_rules.' + lang] = [s for pair in _load('seen_rules.%s.jsonnet' % lang)['seen_rules'] for s in pair]
    for lang in ('en', 'ja'):
        out['unary_rules.' + lang] = [s for pair in _load('unary_rules.%s.jsonnet' % lang)['unary_rules'] for s in pair]
    rb = _load('config_rebank.jsonnet')
    out['unary_rules.en_rebank'] = [s for pair in rb['unary_rules'] for s in pair]
    out['binary_rules.en_rebank'] = [s for row in rb['binary_rules'] for s in row[:3]]
    out['cat_dict.en'] = [s for cats in _load('cat_dict.en.jsonnet')['cat_dict'].values() for s in cats]
    for fn in ('cats.txt', 'cats.ja.txt'):
        with open(os.path.join(REPO, 'tests', fn), encoding='utf-8') as f:
            out['tests/' + fn] = [ln.strip() for ln in f if ln.strip()]
    return out


def distinct_strings():
    seen, res = set(), []
    for src, lst in shipped_strings().items():
        for s in lst:
            if s not in seen:
                seen.add(s)
                res.append((src, s))
    return res


def targets(lang):
    return list(_load('targets.%s.jsonnet' % lang)['targets'])


def seen_rules(lang):
    return [tuple(p) for p in _load('seen_rules.%s.jsonnet' % lang)['seen_rules']]


def unary_rules(lang):
    if lang == 'en_rebank':
        return [tuple(p) for p in _load('config_rebank.jsonnet')['unary_rules']]
    return [tuple(p) for p in _load('unary_rules.%s.jsonnet' % lang)['unary_rules']]


def cat_dict_en():
    return _load('cat_dict.en.jsonnet')['cat_dict']


# The categories a Japanese sentence may end in (conjuncts of the sentence-sequence rule SSEQ): part of the specification, written
# down here and not read from the code under test (depccg/grammar/ja.py holds a list of its own, depccg/argparse.py another).
JA_ROOTS_SPEC = ['NP[case=nc,mod=nm,fin=f]', 'NP[case=nc,mod=nm,fin=t]', 'S[mod=nm,form=attr,fin=t]', 'S[mod=nm,form=base,fin=f]',
                 'S[mod=nm,form=base,fin=t]', 'S[mod=nm,form=cont,fin=f]', 'S[mod=nm,form=cont,fin=t]', 'S[mod=nm,form=da,fin=f]',
                 'S[mod=nm,form=da,fin=t]', 'S[mod=nm,form=hyp,fin=t]', 'S[mod=nm,form=imp,fin=f]', 'S[mod=nm,form=imp,fin=t]',
                 'S[mod=nm,form=r,fin=t]', 'S[mod=nm,form=s,fin=t]', 'S[mod=nm,form=stem,fin=f]', 'S[mod=nm,form=stem,fin=t]']
