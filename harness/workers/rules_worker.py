"""Subprocess worker: applies the real rule functions of $VERIF_REPO to projected categories.
usage: python -m harness.workers.rules_worker IN.ndjson OUT.ndjson
task:   {"t": n, "op": "bin"|"un", "lang": "en"|"ja", "x": cat, "y": cat, "seen": null|name, "unary": null|name, "reps": k}
result: {"t": n, "obs": [ {"res": [...], "raised": bool, "exc": str, "x_after": cat, "y_after": cat} * reps ]}
Seen-rule sets and unary tables are the *real* ones built by depccg.allennlp.utils.read_params from the
shipped configuration (through the jsonnet stand-in)."""
import json
import os
import sys

from .. import stubs  # noqa
from .. import enc
from ..common import REPO

_params = {}
_hist = {}


def params(name):
    """name in en, en_rebank, ja -> (binary_fn, unary_fn, category_dict, roots) from the real read_params"""
    if name not in _params:
        import depccg.lang
        from depccg.allennlp.utils import read_params
        lang = 'ja' if name == 'ja' else 'en'
        depccg.lang.set_global_language_to(lang)
        cfg = {'en': 'config_en.jsonnet', 'en_rebank': 'config_rebank.jsonnet', 'ja': 'config_ja.jsonnet'}[name]
        _params[name] = read_params(os.path.join(REPO, 'depccg', 'models', cfg), disable_category_dictionary=True)
    return _params[name]


def enc_res(rs):
    out = []
    for r in rs:
        out.append({'c': enc.enc_cat(r.cat), 'op': r.op_string, 'sym': r.op_symbol if r.op_symbol.isascii() else '',
                    'symcp': [ord(ch) for ch in r.op_symbol], 'hl': bool(r.head_is_left)})
    return out


def main():
    from depccg.grammar import en, ja
    from depccg.types import CombinatorResult
    mods = {'en': en, 'ja': ja}
    fin, fout = sys.argv[1], sys.argv[2]
    with open(fin) as f, open(fout, 'w') as g:
        for line in f:
            t = json.loads(line)
            mod = mods[t['lang']]
            obs = []
            for _ in range(t.get('reps', 1)):
                x = enc.dec_cat(t['x'])
                y = enc.dec_cat(t['y']) if t['op'] == 'bin' else None
                o = {'res': [], 'raised': False, 'exc': ''}
                try:
                    if t['op'] == 'bin':
                        if t.get('adhoc') is not None:
                            # a caller-supplied collection of seen rules (entries already erased), possibly empty
                            coll = [(enc.dec_cat(a), enc.dec_cat(b)) for a, b in t['adhoc']]
                            coll = frozenset(coll) if t.get('frozen') else set(coll)
                            rs = mod.apply_binary_rules(x, y, coll)
                        elif t.get('seen'):
                            rs = params(t['seen'])[0](x, y)
                        else:
                            rs = mod.apply_binary_rules(x, y)
                    else:
                        if t.get('hist_table') is not None:
                            # a history on one table object edited in place between calls / on short-lived tables built anew
                            # for every call (object identities are reused): the table of THIS call decides
                            if t['hist_table'] == 'same':
                                table = _hist.setdefault('tab', {})
                                table.clear()
                            else:
                                table = {}
                            for lhs, rhs in t['table']:
                                table.setdefault(enc.dec_cat(lhs), []).append(enc.dec_cat(rhs))
                            o['tn0'] = len(table)
                            rs = mod.apply_unary_rules(x, table)
                            o['tn1'] = len(table)
                        elif t.get('unary'):
                            fn = params(t['unary'])[1]
                            table = fn.keywords['unary_rules']         # the table read_params built (a defaultdict)
                            o['tn0'] = len(table)
                            rs = fn(x)
                            o['tn1'] = len(table)
                        else:
                            import collections
                            table = collections.defaultdict(list) if t.get('t', 0) % 2 else {}
                            for lhs, rhs in t['table']:
                                table.setdefault(enc.dec_cat(lhs), []).append(enc.dec_cat(rhs))
                            o['tn0'] = len(table)
                            rs = mod.apply_unary_rules(x, table)
                            o['tn1'] = len(table)
                    o['res'] = enc_res(rs)
                    # a caller may do what it likes with the list it got (the property says the function returns the same list
                    # on every call): emptying it and putting something else into it must not affect later calls
                    try:
                        del rs[:]
                        rs.append(CombinatorResult(cat=x, op_string='INJECTED-BY-CALLER', op_symbol='INJECTED', head_is_left=True))
                    except (TypeError, AttributeError):
                        pass
                except Exception as e:
                    o['raised'] = True
                    o['exc'] = repr(e)[:200]
                o['x_after'] = enc.enc_cat(x)
                o['y_after'] = enc.enc_cat(y) if y is not None else enc.DUMMY
                obs.append(o)
            g.write(json.dumps({'t': t['t'], 'obs': obs}, ensure_ascii=True, separators=(',', ':')) + '\n')


if __name__ == '__main__':
    main()
