#!/usr/bin/env python3
"""Regenerates MANIFEST.json from the table below (single source of truth for the interface)."""
import json, os
V = os.path.dirname(os.path.dirname(os.path.abspath(__file__)))
ids = [json.loads(l)['id'] for l in open(os.path.join(V, 'properties.jsonl'))]

TRUST = ('TLC 1.8 and the TLA+ specification under /verif/spec written from the property statements; the projection '
         'of depccg objects to JSON (harness/enc.py) and the per-format lexers; bounded universes as stated in the evidence')

CHECKS = {
    'C05': dict(
        technique='TLA+ state machine of the category reader model-checked exhaustively by TLC; TLC-generated texts replayed into Category.parse/str and real calls trace-validated against the spec',
        text='CatReader.tla is checked exhaustively on a bounded universe of values x decorations (RoundTrip, PrintStable, FlatRejected, NeverStuck); every initial state of the emit universe is replayed into the real parser/printer, and those events plus all shipped category strings and random decorated/flattened texts are accepted or rejected by the trace specification CatTrace.tla',
        ref='6/C05'),
    'C13': dict(
        technique='TLA+ laws (CatLaws.tla) and a KeyedStore state machine model-checked by TLC; TLC-emitted universe pairs and container histories replayed on real Category objects, dict and set, and trace-validated',
        text='TLC checks the equivalence / erasure laws on every pair of a bounded universe and enumerates every container history of length 4 over 3 keys; the universe pairs and histories are replayed on real objects built three ways (constructors, parser, operators) and every ==, !=, hash, ^, text comparison, clear_features and dict/set operation is judged by ValueTrace.tla',
        ref='6/C13'),
    'C06': dict(
        technique='declarative matching relation in TLA+ (Unify.tla) with laws model-checked by TLC; every state of the bounded model replayed into real Unification objects; real calls and TLC-generated life-cycle histories trace-validated',
        text='MCUnify checks the relation\'s laws on 9 pattern pairs (3 of them repeating a variable inside one pattern, where the verdict is three-valued) x all pairs of depth-1 universes (both feature systems) and emits each state as a vector; the vectors, the pattern pairs intercepted from en.py/ja.py and random linear and non-linear patterns on inventory / instantiated / perturbed inputs are run on real matchers; verdict, every binding, read-after-failure and answer-once are judged by UnifyTrace.tla; all length-4 life-cycle histories of UnifyObj.tla are replayed',
        ref='6/C06'),
    'C03': dict(
        technique='CCG schemas transcribed into TLA+ (GrammarEn.tla), laws model-checked by TLC; TLC-enumerated category pairs replayed into en.apply_binary_rules and every recorded application trace-validated against the schemas',
        text='MCGrammarEn checks that required results are justified etc. on all pairs of bounded universes and emits every pair; these pairs, the test triples, seen rules, inventory pairs and closure rounds are applied with the real rule function in worker processes and each result is accepted only if the schema its label names justifies it (RulesTrace.tla); results required by identical matched parts must be present',
        ref='6/C03'),
    'C04': dict(
        technique='Japanese CCG schemas and unary labelling transcribed into TLA+ (GrammarJa.tla), laws model-checked by TLC; TLC-enumerated pairs (incl. left spines to depth 3) replayed into ja.apply_binary_rules / apply_unary_rules and trace-validated',
        text='MCGrammarJa checks that schema instances are justified, that a head-left or forward-slash crossed result never is, and emits every pair of its universes (non-modifier functors included, which the shipped inventories never exercise); these, the test triples, seen rules, inventory pairs, closure rounds and unary steps (shipped and synthetic left-hand sides) are run on the real rule functions and judged by RulesTrace.tla',
        ref='6/C04'),
    'C14': dict(
        technique='memo state machine in TLA+ (RulePurity.tla) model-checked by TLC; observations of the real rule functions merged from interpreters with different PYTHONHASHSEED and trace-validated (same result per key, arguments unchanged, filter full-or-empty by membership, nb independence, exact unary lookup)',
        text='every key (inventory pairs, seen rules, synthetic pairs in which one feature variable meets different values, unary left-hand sides) is applied twice in each of 4 (quick) / 64 (thorough) fresh interpreters; RulesTrace.tla accepts the merged trace only if one function of the key explains all observations, no call raised or changed its arguments, the seen-rule gate is all-or-nothing by membership of the erased pair in the real seen set, English results ignore nb marks, and unary lookups return exactly the configured targets in order',
        ref='6/C14'),
    'C01': dict(
        technique='implementation-shaped TLA+ model of the A* loop (AStar.tla) checked exhaustively by TLC over score matrices and tie schedules against a CKY oracle; pop-hook and result traces of the real parse_sentence validated by ParserTrace.tla',
        text='AStar.tla (Setup/Pop/Finish, concrete outside estimate) is model-checked for optimality, justified failure, monotone pops and the parent-not-better lemma on all score matrices over small domains (N=3 exhaustive in the thorough tier, all tie schedules for N=2), with a negative control refuting the subtracting estimate; the real search (compiled parsing.h + translated parsing.pyx) is run on random synthetic head-uniform grammars and the real en/ja rules, every popped priority (hook) and every result is judged against the k-best CKY oracle of Oracles.tla',
        ref='6/C01'),
    'C02': dict(
        technique='tree-validity invariant of AStar.tla model-checked by TLC; trees returned by the real depccg.parsing.run evaluated node by node in TLA+ (Oracles!Eval) against the grammar tables observed from the real callbacks',
        text='TreesValid is an invariant of every AStar.tla configuration (one leaf per token in order, licensed unary/binary nodes, allowed root, no unary at the root, admitted tags); every tree returned by the real parser on synthetic (incl. mixed-head) and real en/ja grammars, with and without seen-rule filtering, is re-evaluated by ParserTrace.tla',
        ref='6/C02'),
    'C09': dict(
        technique='score-accounting invariant of AStar.tla model-checked by TLC; scores of real ScoredTree objects recomputed in TLA+ from the returned tree\'s own head flags',
        text='the score of every returned tree must equal leaves + dependencies implied by the head flags of the projected real tree + root attachment - penalty per unary node (exact dyadic arithmetic); the placeholder must carry -inf',
        ref='6/C09'),
    'C10': dict(
        technique='k-best invariants of AStar.tla (k>1 configurations) model-checked by TLC against the k-best CKY oracle; n-best lists of the real parser trace-validated (count, distinct, sorted, k largest scores)',
        text='KBest oracle (dense CKY with unary closure, multiplicities) in TLA+ gives the k largest scores over all derivations; real n-best lists for k in {2,3,4,5,8,50} on head-uniform grammars must be pairwise different, best first, and have exactly those scores',
        ref='6/C10'),
    'C11': dict(
        technique='TLA+ model of chunking / per-worker category table and rule cache / collection (Batch.tla) checked by TLC for all batch permutations; TLC-generated schedules replayed through the real depccg.parsing.run incl. multiprocessing.Pool and validated against solo results',
        text='Batch.tla proves alignment, own-failure-only, append-only tables, injective ids and cache coherence for every permutation of every subset of a 4-sentence batch x 1..3 processes x chunk sizes; sampled schedules and random larger batches are run on real documents (synthetic, en, ja grammars; too-long, unparseable and budget-limited sentences) and BatchTrace.tla accepts a run only if every result equals the sentence\'s solo result; shape mismatches must raise with zero rule callbacks',
        ref='6/C11'),
    'C16': dict(
        technique='beam admission in AStar.tla (Setup) model-checked by TLC; leaf tags and failure status of the real parser judged by three-valued beam predicates in TLA+',
        text='CertExcluded / CertAdmitted (three-valued at pruning ties, half-integer beta thresholds) decide for every leaf of every returned tree whether its tag was excluded, and whether a result exists only through excluded tags; adversarial rows (scores clustered around the threshold, boundary ties, flattened entries), pruning sizes 1..3, beta on/off',
        ref='6/C16'),
    'C17': dict(
        technique='one-action TLA+ model of the dictionary filter (CatDict.tla) with all small documents x dictionaries enumerated by TLC and replayed into the real apply_category_filters; shipped strings and dictionary judged by the category-reader spec',
        text='TLC enumerates 113k document/dictionary vectors with position-coded scores; the real filter output must equal CatDict!Filtered entry by entry, dependency scores and tokens untouched; every distinct shipped category string must be accepted by CatReaderOps!Read and by the real parser and round-trip, every cat_dict.en category must be in targets.en by value, and the shipped dictionary must be applicable through the real loader',
        ref='6/C17'),
    'C08': dict(
        technique='format semantics in TLA+ (Formats.tla: escaped spelling, tree decoding, reader-tree comparison); real auto_of/conll_of output lexed independently and re-read by the real read_auto, every tree and reprinted line trace-validated by RenderTrace.tla',
        text='for random grammar-licensed and arbitrary trees with awkward tokens (pure bracket/angle tokens, tokens containing them, non-ASCII) the AUTO text must decode to the derivation (independent lexer + Formats!NodeFails), read_auto must return the same categories, shape, head flags, POS tags and escaped words (Formats!ReadFails), auto_of of the tree read must reproduce the line, and the CoNLL fragments must concatenate to the AUTO line',
        ref='6/C08'),
    'C20': dict(
        technique='format semantics in TLA+ (Formats.tla); real ptb_of -> read_ptb and ja_of -> read_ccgbank round trips (plain and with bank dependency annotations) and truncated PTB lines, trace-validated by RenderTrace.tla',
        text='trees over the English (PTB) and Japanese (bank format) lexicons incl. unary nodes and bracket tokens are printed by the real encoders and read by the real readers; categories, shape, words and (Japanese) rule symbols of every node are compared in TLA+; incomplete PTB lines must raise; tokens containing a round bracket inside a longer word are a recorded known finding (probe batches)',
        ref='6/C20'),
    'C12': dict(
        technique='(a) label invariant of AStar.tla + trace validation of parser trees against the creating grammar result; (b) reader trees (read_auto, read_xml, read_jigg_xml, read_ptb, Tree.of_nltk_tree) trace-validated against the rules deriving each node (Formats!ReadFails)',
        text='(a) every node of every tree returned by the real parser must carry label, symbol and head direction of a grammar result with the node category for its children (synthetic grammars with several differently labelled results per pair and unary input, real en/ja grammars); (b) grammar-licensed trees and trees with one deliberately underivable node are printed by the real encoders and read back: derivable binary nodes must carry the label (and, without a head field, the head direction) of a rule deriving the category, underivable ones unk',
        ref='6/C12'),
    'C15': dict(
        technique='Jigg XML integrity / reference resolution / tiling and reader-tree comparison specified in TLA+ (Formats.tla); real xml_of->read_xml, to_jigg_xml->read_jigg_xml, and build_ccg_tree / normalize_tokens on the XML captured at the ccg2lambda boundary, trace-validated',
        text='C&C XML (English) and Jigg XML (Japanese) written by the real encoders are re-read by the real readers and compared node by node; every Jigg sentence must have unique span ids, resolving child/terminal references, tiling offsets and exactly one root; ccg2lambda\'s real build_ccg_tree must rebuild a tree isomorphic to the derivation with the template vocabulary\'s labels (label strings for English, symbols for Japanese) and normalize_tokens must yield identifiers starting with _ and free of . , ( ) ! -',
        ref='6/C15'),
    'C18': dict(
        technique='PrintHistory.tla (Render leaves objs unchanged) model-checked; all TLC-generated format sequences replayed on one persistent result object, snapshots and outputs trace-validated (PrintTrace.tla, stateful)',
        text='TLC enumerates all sequences of 3 formats over 12 formats; each (sampled in quick, all in thorough, plus longer random ones) is replayed on one real result object; after every rendering the projection of all trees / categories / tokens must equal the one before it and the output must equal that of a fresh copy',
        ref='6/C18'),
    'C07': dict(
        technique='per-format decoding semantics in TLA+ (Formats.tla: spellings, tree comparison, CoNLL dependencies from head flags, deriv interval-stack decoding, Jigg reference resolution and tiling, Prolog terms); outputs of the real encoders lexed by independent lexers and trace-validated by RenderTrace.tla',
        text='one parse result (1-3 sentences x 1-3 best; grammar-licensed and arbitrary trees; awkward tokens) is rendered by the real to_string in all 11 formats; each document is lexed without depccg code and TLC decides field by field (words, shape, categories, labels/symbols, head flags, token attributes, offsets, numbering, CoNLL heads) whether it denotes the derivation that was rendered',
        ref='6/C07'),
    'C19': dict(
        technique='label vocabularies covered from the real rule functions; every CLI-offered format rendered for every label, every shipped unary entry, random licensed batches and the real failure placeholder (alone and inside batches); outcomes trace-validated by RenderTrace.tla (no exception; other sentences still decode via Formats.tla)',
        text='format lists are read from depccg/argparse.py; one derivation per (label, symbol) returned by the real en/ja rule functions and per shipped unary-table entry (vacuity guard: all expected labels must occur), random grammar-licensed batches, and the placeholder obtained from a real failing parse at every batch position; a rendering must not raise and the remaining sentences must decode to their derivations',
        ref='6/C19'),
}
NOT_YET = 'check not built yet (build in progress; see DESIGN.md section 12)'

m = {
    'version': 1,
    'setup_cmd': './setup.sh',
    'hooks': {
        'guard': 'DEPCCG_VERIF',
        'enable': 'parser checks compile $VERIF_REPO/depccg/parsing.h with harness/shim/parsing_shim.cpp into build/ and export DEPCCG_VERIF=1 before installing the pop hook; with the variable unset the hook pointer stays null',
        'baseline_off_cmd': 'cd /repo && env -u DEPCCG_VERIF /venv/bin/python -m pytest -ra -q -p no:cacheprovider --timeout=900 --continue-on-collection-errors',
        'source_commits': json.load(open(os.path.join(V, 'tools', 'hook_commits.json'))) if os.path.exists(os.path.join(V, 'tools', 'hook_commits.json')) else [],
        'add_only': True,
    },
    'engines': [
        {'name': 'tlc-trace', 'path': 'harness/', 'serves_properties': sorted(CHECKS),
         'kind_free_text': 'TLA+ specifications under spec/ model-checked with TLC; real-code events validated by trace specifications under spec/traces; TLC-generated vectors replayed into the real code'}],
    'checks': [],
    'notes': 'single entry point ./check <ID> --tier quick|thorough; exit 0 held, 1 violation (VIOLATION line), 2 machinery failure. See DESIGN.md.',
    'not_applicable': [],
}
for i in ids:
    if i in CHECKS:
        c = CHECKS[i]
        m['checks'].append({
            'property_id': i,
            'quick_cmd': './check %s --tier quick' % i,
            'thorough_cmd': './check %s --tier thorough' % i,
            'evidence_file': 'evidence/%s.json' % i,
            'replay_cmd_template': './check %s --replay {path}' % i,
            'engine': 'tlc-trace',
            'level_claimed': {'category': 'model_checking', 'text': c['text'], 'design_ref': c['ref']},
            'level_note': c.get('note', TRUST),
            'technique': c['technique'],
        })
    else:
        m['not_applicable'].append({'property_id': i, 'reason': NOT_YET})
json.dump(m, open(os.path.join(V, 'MANIFEST.json'), 'w'), indent=1)
print('checks:', [c['property_id'] for c in m['checks']])
