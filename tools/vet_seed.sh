#!/bin/sh
# usage: tools/vet_seed.sh <seed-name> <property-ID> <dir with patch.diff demo.py meta.json> [tier]
# Confirms a seeded change (tests still pass, demo passes without / fails with it), runs the property's
# check against it in a scratch copy, and files everything under /verif/seeded/<seed-name>/.
name="$1"; prop="$2"; src="$3"; tier="${4:-quick}"
V="$(cd "$(dirname "$0")/.." && pwd)"
d=$(mktemp -d /tmp/depccg-seed-XXXXXX)
trap 'rm -rf "$d"' EXIT
rsync -a --exclude .git /repo/ "$d/clean/"
rsync -a --exclude .git /repo/ "$d/mut/"
(cd "$d/mut" && git init -q . && git apply --whitespace=nowarn "$src/patch.diff") || { echo "patch does not apply"; exit 2; }
out="$V/seeded/$name"; mkdir -p "$out"
cp "$src/patch.diff" "$out/patch.diff"; cp "$src"/demo* "$out/" 2>/dev/null
/venv/bin/python "$src/demo.py" "$d/clean" > "$d/demo_clean.log" 2>&1; rc_clean=$?
/venv/bin/python "$src/demo.py" "$d/mut" > "$d/demo_mut.log" 2>&1; rc_mut=$?
(cd "$d/mut" && /venv/bin/python -m pytest -q -p no:cacheprovider --timeout=900 --continue-on-collection-errors 2>&1 | tail -1) > "$d/pytest.log"
cd "$V"
VERIF_REPO="$d/mut" ./check "$prop" --tier "$tier" > "$d/check.log" 2>&1; rc_check=$?
/venv/bin/python - "$name" "$prop" "$src" "$out" "$rc_clean" "$rc_mut" "$rc_check" "$d" "$tier" <<'PY'
import json, sys, os
name, prop, src, out, rc_clean, rc_mut, rc_check, d, tier = sys.argv[1:]
meta = {}
try:
    meta = json.load(open(os.path.join(src, 'meta.json')))
except Exception as e:
    meta = {'note': 'sub-agent meta.json unreadable: %r' % e}
meta = {'property': prop, 'seed': name, 'summary': meta.get('summary'), 'needs_to_manifest': meta.get('needs_to_manifest'),
        'files_changed': meta.get('files_changed'), 'origin': 'fresh sub-agent given only the property text and a scratch worktree',
        'confirmed_by_me': {
            'base': 'scratch copy of /repo HEAD ' + os.popen('git -C /repo rev-parse --short HEAD').read().strip(),
            'demo_exit_without_change': int(rc_clean), 'demo_exit_with_change': int(rc_mut),
            'pytest_with_change': open(os.path.join(d, 'pytest.log')).read().strip(),
            'check_cmd': 'VERIF_REPO=<scratch copy with patch> ./check %s --tier %s' % (prop, tier),
            'check_exit': int(rc_check),
            'check_output_tail': open(os.path.join(d, 'check.log')).read().strip().split('\n')[-6:],
        }}
meta['detected'] = int(rc_check) == 1
meta['valid_seed'] = int(rc_clean) == 0 and int(rc_mut) == 1 and '3583 passed' in meta['confirmed_by_me']['pytest_with_change']
json.dump(meta, open(os.path.join(out, 'meta.json'), 'w'), indent=1)
print(name, 'valid' if meta['valid_seed'] else 'INVALID', 'detected' if meta['detected'] else 'MISSED', meta['confirmed_by_me']['check_output_tail'][-3:])
PY
