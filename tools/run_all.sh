#!/bin/sh
# runs every registered check (quick tier by default) sequentially; prints a summary line per check
cd "$(dirname "$0")/.."
tier="${1:-quick}"
mkdir -p build evidence
for id in $(python3 -c "import json;print(' '.join(c['property_id'] for c in json.load(open('MANIFEST.json'))['checks']))"); do
  s=$(date +%s)
  ./check $id --tier $tier > build/last_$id.log 2>&1; rc=$?
  e=$(date +%s)
  echo "$id rc=$rc $((e-s))s $(grep -c KNOWN-FINDING build/last_$id.log) known $(tail -n 1 build/last_$id.log | cut -c1-100)"
done
