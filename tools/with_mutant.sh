#!/bin/sh
# usage: tools/with_mutant.sh <patch-or-sed-script.sh> <check args...>
# Copies $VERIF_REPO (default /repo) working tree to a scratch dir outside /repo and /verif, applies the
# patch (git apply) or runs the script inside it, runs ./check with VERIF_REPO pointing there, removes it.
set -e
src="${VERIF_REPO:-/repo}"
patch="$1"; shift
d=$(mktemp -d /tmp/depccg-mut-XXXXXX)
trap 'rm -rf "$d"' EXIT
rsync -a --exclude .git "$src/" "$d/"
case "$patch" in
  *.sh) (cd "$d" && sh "$patch") ;;
  *) (cd "$d" && git init -q . && git apply --whitespace=nowarn "$patch") ;;
esac
cd "$(dirname "$0")/.."
set +e
VERIF_REPO="$d" ./check "$@"
rc=$?
echo "mutant exit status: $rc"
exit $rc
