----------------------------- MODULE MCTrainData -----------------------------
(* Model-checking wrapper of TrainData: the bank is kept as trees next to its flat form, so that a finished run can be emitted *)
(* as a test vector (the trees are printed as an AUTO file and handed to the real create_traindata).                            *)
EXTENDS TrainData, SequencesExt
VARIABLE src
MCInit == /\ src \in SeqsUpTo(TreesOf(Depth), MaxTrees) /\ bank = [j \in DOMAIN src |-> Flat(src[j])] /\ InitRest
MCNext == Next /\ UNCHANGED src
MCSpec == MCInit /\ [][MCNext]_<<vars, src>> /\ WF_vars(Next)
BankIsTheTrees == bank = [j \in DOMAIN src |-> Flat(src[j])]
Rows1(f) == SetToSeq({<<x, f[x]>> : x \in DOMAIN f})
Rows2(f) == SetToSeq({<<p[1], p[2], f[p]>> : p \in DOMAIN f})
Emit == pc = "done" => PrintT("VEC " \o ToJson([src |-> src, ccut |-> CatCut, wcut |-> WordCut, nsamples |-> nsamples,
                                                 target |-> Rows1(out.target), words |-> Rows1(out.words),
                                                 seen |-> Rows2(out.seen), unary |-> Rows2(out.unary)]))
=============================================================================
