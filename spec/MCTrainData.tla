----------------------------- MODULE MCTrainData -----------------------------
(* Model-checking wrapper of TrainData: the bank is kept as trees next to its flat form, so that a finished run can be emitted *)
(* as a test vector (the trees are printed as an AUTO file and handed to the real create_traindata).                            *)
EXTENDS TrainData, SequencesExt
VARIABLE src
MCSpellOf == [w \in Words |-> CASE w = "w" -> <<"w">> [] w = "vw" -> <<"v", "w">> [] w = "vwx" -> <<"v", "w", "x">> [] w = "vwxy" -> <<"v", "w", "x", "y">> [] w = "wxyzw" -> <<"w", "x", "y", "z", "w">> [] w = "OOR2" -> <<"O", "O", "R", "2">>]
MCInit == /\ src \in SeqsUpTo(TreesOf(Depth), MaxTrees) /\ bank = [j \in DOMAIN src |-> Flat(src[j])] /\ InitRest
MCNext == Next /\ UNCHANGED src
MCSpec == MCInit /\ [][MCNext]_<<vars, src>> /\ WF_vars(Next)
BankIsTheTrees == bank = [j \in DOMAIN src |-> Flat(src[j])]
Rows1(f) == SetToSeq({<<x, f[x]>> : x \in DOMAIN f})
Rows2(f) == SetToSeq({<<p[1], p[2], f[p]>> : p \in DOMAIN f})
Emit == pc = "done" => PrintT("VEC " \o ToJson([src |-> src, ccut |-> CatCut, wcut |-> WordCut, acut |-> AfixCut, nsamples |-> nsamples,
                                                 target |-> Rows1(out.target), words |-> Rows1(out.words),
                                                 seen |-> Rows2(out.seen), unary |-> Rows2(out.unary),
                                                 prefixes |-> Rows1(out.prefixes), suffixes |-> Rows1(out.suffixes),
                                                 mode |-> Mode, sents |-> out.sents, conll |-> out.conll]))
=============================================================================
