SPECIFICATION Spec
CONSTANTS
  Fam = "unary"
  NW = 2
  HeadLeft = FALSE
  G <- Gram
  TagScores <- Scores01
  DepScores <- Scores0
  KBestN = 1
  MaxStep = 1000
  EstSign = 1
  Ties = "all"
INVARIANT TypeOK
INVARIANT Terminal
INVARIANT Monotone
INVARIANT ParentNotBetter
INVARIANT TreesValid
INVARIANT KBestDistinctSorted
CHECK_DEADLOCK FALSE
