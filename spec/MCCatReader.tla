---------------------------- MODULE MCCatReader ----------------------------
EXTENDS CatReader, Json

TFeat1 == TF(KV("mod", "nm", FALSE), KV("form", "X1", TRUE), KV("fin", "f", FALSE))
TFeat2 == TF(KV("mod", "adn", FALSE), KV("form", "base", FALSE), KV("fin", "t", FALSE))

AtomsSmall == {Atom("S", NoF), Atom("S", UF("dcl")), Atom("NP", UF("X")), Atom("NP", UF("nb")),
               Atom(",", NoF), Atom("S", TFeat1)}
AtomsMid   == AtomsSmall \cup {Atom("N", NoF), Atom("conj", NoF), Atom("NP", TFeat2), Atom("PP", UF("X"))}
AtomsBig   == {Atom(b, f) : b \in {"S", "N"}, f \in {NoF, UF("dcl"), UF("X"), TFeat1}} \cup {Atom(",", NoF)}

(* TLC evaluates every constant-level definition at start-up, so only one universe may exist per run *)
CONSTANT Sel
Univ == CASE Sel = "u1small" -> CatsUpTo(1, AtomsSmall, Slashes)
          [] Sel = "u1mid"   -> CatsUpTo(1, AtomsMid, Slashes)
          [] Sel = "u2small" -> CatsUpTo(2, AtomsSmall, Slashes)
          [] Sel = "u2big"   -> CatsUpTo(2, AtomsBig, Slashes)
          [] Sel = "u2emit"  -> CatsUpTo(2, {Atom("S", UF("dcl")), Atom("NP", NoF), Atom(",", NoF), Atom("S", TFeat1)}, {"/", "\\"})

(* spec -> code: every initial state is a test vector *)
EmitVectors == (m.st = "run" /\ m.stk = <<>> /\ m.buf = txt) =>
                 PrintT("VEC " \o ToJson([kind |-> kind, v |-> ghost, toks |-> txt]))
=============================================================================
