SPECIFICATION Spec
CONSTANT Sel = "tiny2"
INVARIANT SchemaIsJustified
INVARIANT HeadLeftNeverJustified
INVARIANT CrossedKeepsBackslash
INVARIANT Emit
CHECK_DEADLOCK FALSE
