-------------------------------- MODULE AStar --------------------------------
(* C01 C02 C09 C10 C12a C16: the A* search of depccg/parsing.h as a state    *)
(* machine, one action per loop iteration.                                    *)
(*   Setup  : beam per word, leaf items, outside tables                      *)
(*   Pop    : take a best item from the agenda; goal pop | chart drop |       *)
(*            chart insert + goal item + unary results + combination with    *)
(*            adjacent stored items on both sides                            *)
(*   Finish : loop condition false -> stable sort of the goal cell, status   *)
(* The grammar G is an instance record in the format of Oracles.tla          *)
(* (fields N K C bin un roots pen prune usebeta b16 words); tag and dep are  *)
(* chosen in Init from ScoreSet.  EstSign = 1 is the estimate "best remaining*)
(* tag scores + best remaining head scores including the head word of the    *)
(* span"; EstSign = -1 reproduces the formula the pinned parsing.h had.      *)
EXTENDS Oracles

CONSTANTS G, TagScores, DepScores, KBestN, MaxStep, EstSign, Ties
ASSUME EstSign \in {1, -1} /\ Ties \in {"canonical", "all"}

VARIABLES tag, dep, bt, bd, agenda, stored, goal, step, lastPrio, mono, status
vars == <<tag, dep, bt, bd, agenda, stored, goal, step, lastPrio, mono, status>>

N == G.N
Inst == [G EXCEPT !.tag = tag, !.dep = dep]       \* the instance the oracles see

Sum(f, S) == LET RECURSIVE Acc(_) Acc(T) == IF T = {} THEN 0 ELSE LET x == CHOOSE x \in T : TRUE IN f[x] + Acc(T \ {x}) IN Acc(S)
(* bt, bd: best tag score / best head score per word, computed once by Setup (TLC does not memoise definitions) *)
BestTagOf == bt
BestDepOf == bd
Outside(start, len) == (1..N) \ (start..(start + len - 1))
TagOut(start, len) == Sum(BestTagOf, Outside(start, len))
DepOut(start, len) == Sum(BestDepOf, Outside(start, len))
Estimate(start, len, head) == TagOut(start, len) + DepOut(start, len) + EstSign * BestDepOf[head]

(* the beam as parsing.h builds it: at most prune tags per word, best first (ties: larger id first),
   stopping at the first tag whose probability is not above beta x the best probability *)
Better(i, c, d) == tag[i][c] > tag[i][d] \/ (tag[i][c] = tag[i][d] /\ c > d)
Rank(i, c) == Cardinality({d \in 1..G.K : Better(i, d, c)})
AboveBeta(i, c) == ~G.usebeta \/ 2 * (tag[i][c] - BestTagOf[i]) > -G.b16
Admitted(i, c) == Rank(i, c) < G.prune /\ \A d \in 1..G.K : Rank(i, d) <= Rank(i, c) => AboveBeta(i, d)

Item(fin, cat, left, right, in, out, start, len, head, rule) ==
  [fin |-> fin, cat |-> cat, left |-> left, right |-> right, in |-> in, out |-> out,
   start |-> start, len |-> len, head |-> head, rule |-> rule]
Prio(it) == it.in + it.out
Leaf(i, c) == Item(FALSE, c, 0, 0, tag[i][c], Estimate(i, 1, i), i, 1, i, 0)

Init == /\ tag \in [1..N -> [1..G.K -> TagScores]]
        /\ dep \in [1..N -> [1..(N + 1) -> DepScores]]
        /\ bt = [i \in 1..N |-> MaxS({tag[i][c] : c \in 1..G.K})]
        /\ bd = [i \in 1..N |-> MaxS({dep[i][h] : h \in 1..(N + 1)})]
        /\ agenda = UNION {{Leaf(i, c) : c \in {d \in 1..G.K : Admitted(i, d)}} : i \in 1..N}
        /\ stored = <<>> /\ goal = <<>> /\ step = 0
        /\ lastPrio = 0 /\ mono = TRUE /\ status = "run"
(* leaf items are created from tag/dep of the same state: evaluated with primes resolved by TLC since Init is a conjunction in order *)

SameCell(a, b) == a.start = b.start /\ a.len = b.len /\ a.cat = b.cat
Running == status = "run" /\ step < MaxStep /\ Len(goal) < KBestN /\ agenda # {}

NewItems(it, id) ==
  LET goalItems == IF it.len = N /\ it.cat \in Range(G.roots)
                   THEN {Item(TRUE, it.cat, id, 0, it.in + dep[it.head][1], 0, it.start, it.len, it.head, it.rule)} ELSE {}
      unary == IF N = 1 \/ it.len # N
               THEN {Item(FALSE, UnRes(G, it.cat)[u].c, id, 0, it.in - G.pen, it.out, it.start, it.len, it.head, u - 1) : u \in DOMAIN UnRes(G, it.cat)}
               ELSE {}
      right == UNION {LET o == stored[j] IN
                      IF o.start # it.start + it.len THEN {}
                      ELSE {LET r == BinRes(G, it.cat, o.cat)[ri]
                                h == IF r.hl THEN it.head ELSE o.head
                                ch == IF r.hl THEN o.head ELSE it.head
                            IN Item(FALSE, r.c, id, j, it.in + o.in + dep[ch][h + 1], Estimate(it.start, it.len + o.len, h),
                                    it.start, it.len + o.len, h, ri - 1) : ri \in DOMAIN BinRes(G, it.cat, o.cat)} : j \in DOMAIN stored}
      left  == UNION {LET o == stored[j] IN
                      IF o.start + o.len # it.start THEN {}
                      ELSE {LET r == BinRes(G, o.cat, it.cat)[ri]
                                h == IF r.hl THEN o.head ELSE it.head
                                ch == IF r.hl THEN it.head ELSE o.head
                            IN Item(FALSE, r.c, j, id, it.in + o.in + dep[ch][h + 1], Estimate(o.start, it.len + o.len, h),
                                    o.start, it.len + o.len, h, ri - 1) : ri \in DOMAIN BinRes(G, o.cat, it.cat)} : j \in DOMAIN stored}
  IN goalItems \cup unary \cup right \cup left

MaxItems == {it \in agenda : \A o \in agenda : Prio(o) <= Prio(it)}
Pick == IF Ties = "canonical" THEN {CHOOSE it \in MaxItems : TRUE} ELSE MaxItems

Account(it) == /\ step' = step + 1
               /\ mono' = (mono /\ (step = 0 \/ Prio(it) <= lastPrio))
               /\ lastPrio' = Prio(it)
               /\ UNCHANGED <<tag, dep, bt, bd, status>>
(* one loop iteration for a given agenda item *)
PopGoalIt(it) == /\ it.fin
                 /\ goal' = Append(goal, it) /\ agenda' = agenda \ {it} /\ UNCHANGED stored
                 /\ Account(it)
PopDropIt(it) == /\ ~it.fin /\ KBestN = 1 /\ \E j \in DOMAIN stored : SameCell(stored[j], it)
                 /\ agenda' = agenda \ {it} /\ UNCHANGED <<stored, goal>>
                 /\ Account(it)
PopStoreIt(it) == /\ ~it.fin /\ ~(KBestN = 1 /\ \E j \in DOMAIN stored : SameCell(stored[j], it))
                  /\ stored' = Append(stored, it)
                  /\ agenda' = (agenda \ {it}) \cup NewItems(it, Len(stored) + 1)
                  /\ UNCHANGED goal
                  /\ Account(it)
PopGoal  == Running /\ \E it \in Pick : PopGoalIt(it)
PopDrop  == Running /\ \E it \in Pick : PopDropIt(it)
PopStore == Running /\ \E it \in Pick : PopStoreIt(it)
Finish == /\ status = "run" /\ ~Running
          /\ status' = IF Len(goal) = 0 THEN "failed" ELSE "done"
          /\ goal' = SortSeq(goal, LAMBDA a, b : Prio(a) > Prio(b))
          /\ UNCHANGED <<tag, dep, bt, bd, agenda, stored, step, lastPrio, mono>>
Next == PopGoal \/ PopDrop \/ PopStore \/ Finish
Spec == Init /\ [][Next]_vars

(* ---------------- the returned trees ---------------- *)
RECURSIVE TreeOf(_)
TreeOf(id) ==
  LET it == stored[id] IN
  IF it.left = 0 THEN [k |-> "L", c |-> it.cat, w |-> it.start, word |-> G.words[it.start], lab |-> "", sym |-> "", hl |-> TRUE, kids |-> <<>>]
  ELSE IF it.right = 0 THEN
       LET r == UnRes(G, stored[it.left].cat)[it.rule + 1]
       IN [k |-> "U", c |-> it.cat, w |-> 0, word |-> "", lab |-> r.lab, sym |-> r.sym, hl |-> TRUE, kids |-> <<TreeOf(it.left)>>]
  ELSE LET r == BinRes(G, stored[it.left].cat, stored[it.right].cat)[it.rule + 1]
       IN [k |-> "B", c |-> it.cat, w |-> 0, word |-> "", lab |-> r.lab, sym |-> r.sym, hl |-> r.hl, kids |-> <<TreeOf(it.left), TreeOf(it.right)>>]
ResultTree(i) == TreeOf(goal[i].left)
ResultScore(i) == goal[i].in

(* ---------------- properties ---------------- *)
Adm(i, c) == Admitted(i, c)
OracleK == KBest(Inst, KBestN, Adm)
Exhausted == step >= MaxStep
(* C01: the first result is optimal; failure only without derivation (or budget); pops never increase *)
Optimal   == status = "done" => (Len(OracleK) > 0 /\ ResultScore(1) = OracleK[1])
FailJust  == status = "failed" => (Len(OracleK) = 0 \/ Exhausted)
Complete  == (status = "done" /\ ~Exhausted) => Len(OracleK) > 0
NoFalseFail == (status # "run" /\ Len(OracleK) > 0 /\ ~Exhausted) => status = "done"
Monotone  == mono
(* the lemma behind it: a parent never has a better priority than the stored children it was built from *)
ParentNotBetter == \A it \in agenda : it.left # 0 =>
                      /\ Prio(it) <= Prio(stored[it.left])
                      /\ (it.right # 0 => Prio(it) <= Prio(stored[it.right]))
(* C02 C09 C12a C16 on every returned tree *)
TreesValid == status = "done" => \A i \in DOMAIN goal :
                 LET ev == Eval(Inst, ResultTree(i), 1) IN
                 /\ ev.ok /\ ev.n = N /\ ev.lic /\ ev.adm
                 /\ ev.c \in Range(G.roots)
                 /\ (N > 1 => ResultTree(i).k # "U")
                 /\ ResultScore(i) = ev.sc + dep[ev.h][1]
(* C10: the k best, best first, pairwise different *)
KBestOK == (status = "done" /\ ~Exhausted) =>
              /\ Len(goal) = Min2(KBestN, Len(OracleK))
              /\ \A i \in 1..(Len(goal) - 1) : ResultScore(i) >= ResultScore(i + 1)
              /\ [i \in DOMAIN goal |-> ResultScore(i)] = SubSeq(OracleK, 1, Len(goal))
              /\ \A i, j \in DOMAIN goal : i # j => ResultTree(i) # ResultTree(j)
KBestDistinctSorted == status = "done" =>
              /\ \A i \in 1..(Len(goal) - 1) : ResultScore(i) >= ResultScore(i + 1)
              /\ \A i, j \in DOMAIN goal : i # j => ResultTree(i) # ResultTree(j)
(* all terminal-state properties with one evaluation of the oracle *)
Terminal == status = "run" \/
  LET ok == OracleK IN
  /\ (status = "done" => (Len(ok) > 0 /\ ResultScore(1) = ok[1]))                       \* Optimal
  /\ (status = "failed" => (Len(ok) = 0 \/ Exhausted))                                  \* FailJust
  /\ ((Len(ok) > 0 /\ ~Exhausted) => status = "done")                                   \* NoFalseFail
  /\ ((status = "done" /\ ~Exhausted) =>
        /\ Len(goal) = Min2(KBestN, Len(ok))
        /\ [i \in DOMAIN goal |-> ResultScore(i)] = SubSeq(ok, 1, Len(goal)))            \* KBestOK (scores)
TypeOK == status \in {"run", "done", "failed"} /\ step \in 0..MaxStep
=============================================================================
