-------------------------------- MODULE Batch --------------------------------
(* C11: the batch driver (depccg/parsing.py run + parsing.pyx run): chunking, *)
(* worker processes with their own growing category table and rule cache,    *)
(* in-order collection.  Sentences are abstract: sentence s needs the        *)
(* categories Needs[s] (in this order) and its solo result is Solo(s) = the  *)
(* sequence of those category *values*; inside a worker categories are known *)
(* by ids = positions in the worker's table, which depend on history.        *)
EXTENDS Integers, Sequences, FiniteSets, TLC, Json

CONSTANTS Sents, Lex, Needs, Fails, MaxProcs, ChunkSizes
(* Sents: set of sentence ids; Lex: sequence of lexical categories (initial table);
   Needs: [Sents -> Seq(category)]; Fails: sentences that are too long / have no parse / run out of budget *)
VARIABLES batch, procs, maxchunk, chunks, w, out, phase
vars == <<batch, procs, maxchunk, chunks, w, out, phase>>

Range(s) == {s[i] : i \in DOMAIN s}
Perms(S) == {f \in [1..Cardinality(S) -> S] : \A i, j \in DOMAIN f : i # j => f[i] # f[j]}
Batches == UNION {Perms(T) : T \in SUBSET Sents \ {{}}}
Ceil(a, b) == (a + b - 1) \div b
(* parsing.py _chunks: contiguous slices of size ceil(len / max(procs, 1)) *)
Split(b, p) == LET sz == Ceil(Len(b), IF p < 1 THEN 1 ELSE p)
               IN [c \in 1..Ceil(Len(b), sz) |-> SubSeq(b, (c - 1) * sz + 1, IF c * sz > Len(b) THEN Len(b) ELSE c * sz)]
Placeholder == <<"FAILED">>
Solo(s) == IF s \in Fails THEN Placeholder ELSE Needs[s]

Init == /\ batch \in Batches /\ procs \in 1..MaxProcs /\ maxchunk \in ChunkSizes
        /\ chunks = IF Len(batch) <= maxchunk THEN <<batch>> ELSE Split(batch, procs)
        /\ w = [c \in DOMAIN chunks |-> [table |-> Lex, cache |-> {}, pos |-> 1, res |-> <<>>]]
        /\ out = <<>> /\ phase = "parse"

IdOf(table, cat) == CHOOSE i \in DOMAIN table : table[i] = cat
RECURSIVE AddAll(_, _)
AddAll(table, cats) == IF cats = <<>> THEN table
                       ELSE AddAll(IF Head(cats) \in Range(table) THEN table ELSE Append(table, Head(cats)), Tail(cats))
(* worker c parses its next sentence: new categories get the next ids, cache entries are keyed by ids,
   the result is read back through the table *)
ParseSentence(c) ==
  /\ phase = "parse" /\ w[c].pos <= Len(chunks[c])
  /\ LET s == chunks[c][w[c].pos]
         t2 == IF s \in Fails THEN w[c].table ELSE AddAll(w[c].table, Needs[s])
         ids == IF s \in Fails THEN <<>> ELSE [i \in DOMAIN Needs[s] |-> IdOf(t2, Needs[s][i])]
         result == IF s \in Fails THEN Placeholder ELSE [i \in DOMAIN ids |-> t2[ids[i]]]
     IN w' = [w EXCEPT ![c] = [table |-> t2, cache |-> @.cache \cup {<<ids[i], t2[ids[i]]>> : i \in DOMAIN ids},
                               pos |-> @.pos + 1, res |-> Append(@.res, result)]]
  /\ UNCHANGED <<batch, procs, maxchunk, chunks, out, phase>>
Collect == /\ phase = "parse" /\ \A c \in DOMAIN chunks : w[c].pos > Len(chunks[c])
           /\ out' = LET RECURSIVE Cat(_) Cat(c) == IF c > Len(chunks) THEN <<>> ELSE w[c].res \o Cat(c + 1) IN Cat(1)
           /\ phase' = "done"
           /\ UNCHANGED <<batch, procs, maxchunk, chunks, w>>
Next == (\E c \in DOMAIN chunks : ParseSentence(c)) \/ Collect
Spec == Init /\ [][Next]_vars

(* ---- properties ---- *)
ChunksOK == /\ \A c \in DOMAIN chunks : Len(chunks[c]) > 0
            /\ (LET RECURSIVE Cat(_) Cat(c) == IF c > Len(chunks) THEN <<>> ELSE chunks[c] \o Cat(c + 1) IN Cat(1)) = batch
            /\ Len(chunks) <= (IF Len(batch) <= maxchunk THEN 1 ELSE procs)
TableAppendOnly == [][\A c \in DOMAIN w : SubSeq(w'[c].table, 1, Len(w[c].table)) = w[c].table]_vars
IdsInjective == \A c \in DOMAIN w : \A i, j \in DOMAIN w[c].table : i # j => w[c].table[i] # w[c].table[j]
CacheCoherent == \A c \in DOMAIN w : \A e \in w[c].cache : w[c].table[e[1]] = e[2]
Aligned == phase = "done" => /\ Len(out) = Len(batch)
                              /\ \A i \in DOMAIN batch : out[i] = Solo(batch[i])        \* same as parsed alone
OwnFailureOnly == phase = "done" => \A i \in DOMAIN batch : (out[i] = Placeholder) <=> (batch[i] \in Fails)
(* spec -> code: every initial state is a batch schedule to replay *)
Emit == (phase = "parse" /\ \A c \in DOMAIN w : w[c].pos = 1) =>
           PrintT("VEC " \o ToJson([batch |-> batch, procs |-> procs, maxchunk |-> maxchunk, nchunks |-> Len(chunks)]))
=============================================================================
