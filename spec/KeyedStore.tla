----------------------------- MODULE KeyedStore -----------------------------
(* C13: what "categories behave as values" means for containers keyed by    *)
(* categories (seen rules, unary rules, category ids, caches): a store is a  *)
(* set of *values*; a key built in any way finds what an equal key put in.   *)
EXTENDS Cat, Json

CONSTANTS Keys, MaxLen
VARIABLES store, h
vars == <<store, h>>

Init == store = {} /\ h = <<>>
Insert(k) == /\ store' = store \cup {k}
             /\ h' = Append(h, [op |-> "ins", key |-> k, found |-> k \in store])
Lookup(k) == /\ UNCHANGED store
             /\ h' = Append(h, [op |-> "look", key |-> k, found |-> k \in store])
Remove(k) == /\ store' = store \ {k}
             /\ h' = Append(h, [op |-> "del", key |-> k, found |-> k \in store])
Next == Len(h) < MaxLen /\ \E k \in Keys : Insert(k) \/ Lookup(k) \/ Remove(k)
Spec == Init /\ [][Next]_vars

(* what a history must look like: found = the key's value was inserted and not removed since *)
RECURSIVE Replay(_, _)
Replay(hist, s) == IF hist = <<>> THEN TRUE
                   ELSE LET e == Head(hist) IN
                        /\ e.found = (e.key \in s)
                        /\ Replay(Tail(hist), CASE e.op = "ins" -> s \cup {e.key}
                                                [] e.op = "del" -> s \ {e.key}
                                                [] OTHER -> s)
Consistent == Replay(h, {})
StoreIsSetOfKeys == store \subseteq Keys
(* spec -> code: every complete history is a test vector *)
EmitHistories == Len(h) = MaxLen => PrintT("VEC " \o ToJson(h))
=============================================================================
