SPECIFICATION MCSpec
CONSTANTS
  Cats = {"NP", "S/NP"}
  Words = {"w", "vw", "wxyzw"}
  MaxTrees = 2
  Depth = 1
  CatCut = 2
  WordCut = 2
  Mode = "train"
  AfixCut = 2
  SpellOf <- MCSpellOf
INVARIANT FilesAreTheCounts
INVARIANT OneSamplePerKeptTree
INVARIANT ReservedWordsAlwaysWritten
INVARIANT SeenRulesOverTargetsOnly
INVARIANT AfixReservedAlwaysWritten
INVARIANT ConllBlocksAreHeadFirstTrees
INVARIANT FourAffixesPerLeaf
INVARIANT ShortWordsFeedTheMarkers
INVARIANT BankIsTheTrees
INVARIANT Emit
PROPERTY CountsOnlyGrow
PROPERTY Terminates
CHECK_DEADLOCK FALSE
