SPECIFICATION MCSpec
CONSTANTS
  Cats = {"NP", "S/NP"}
  Words = {"w", "v"}
  MaxTrees = 2
  Depth = 1
  CatCut = 2
  WordCut = 2
INVARIANT FilesAreTheCounts
INVARIANT OneSamplePerKeptTree
INVARIANT ReservedWordsAlwaysWritten
INVARIANT SeenRulesOverTargetsOnly
INVARIANT BankIsTheTrees
INVARIANT Emit
PROPERTY CountsOnlyGrow
PROPERTY Terminates
CHECK_DEADLOCK FALSE
