SPECIFICATION Spec
CONSTANT Sel = "spine"
INVARIANT SchemaIsJustified
INVARIANT HeadLeftNeverJustified
INVARIANT CrossedKeepsBackslash
INVARIANT Emit
CHECK_DEADLOCK FALSE
