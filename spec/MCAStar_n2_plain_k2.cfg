SPECIFICATION Spec
CONSTANTS
  Fam = "plain"
  NW = 2
  HeadLeft = TRUE
  G <- Gram
  TagScores <- Scores01
  DepScores <- Scores01
  KBestN = 2
  MaxStep = 1000
  EstSign = 1
  Ties = "canonical"
INVARIANT TypeOK
INVARIANT Terminal
INVARIANT Monotone
INVARIANT ParentNotBetter
INVARIANT TreesValid
INVARIANT KBestDistinctSorted
CHECK_DEADLOCK FALSE
