SPECIFICATION Spec
CONSTANT Sel = "tiny2"
INVARIANT MustIsJustified
INVARIANT AtomNoFunctor
INVARIANT MustFunctional
INVARIANT Emit
CHECK_DEADLOCK FALSE
