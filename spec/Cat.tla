------------------------------- MODULE Cat -------------------------------
(* CCG category values and the operations the properties talk about.       *)
(* Written from the property statements (C05 C06 C13), not from cat.py.    *)
(*                                                                         *)
(*   feature  ::= [t |-> "U", v |-> text]            "" = no feature,      *)
(*                                                   "X" = variable, "nb"  *)
(*              | [t |-> "T", kv |-> <<e1, e2, e3>>] e = [k, v, x]         *)
(*                                                   x = value is a        *)
(*                                                   variable (starts X)   *)
(*   category ::= [k |-> "A", b |-> base, f |-> feature]                   *)
(*              | [k |-> "F", l |-> category, s |-> slash, r |-> category] *)
EXTENDS Integers, Sequences, FiniteSets, TLC

NoF == [t |-> "U", v |-> ""]
UF(v) == [t |-> "U", v |-> v]
KV(k, v, x) == [k |-> k, v |-> v, x |-> x]
TF(a, b, c) == [t |-> "T", kv |-> <<a, b, c>>]
Atom(b, f) == [k |-> "A", b |-> b, f |-> f]
Fun(l, s, r) == [k |-> "F", l |-> l, s |-> s, r |-> r]

Slashes == {"/", "\\", "|"}
Puncts  == {",", ".", ";", ":", "LRB", "RRB", "conj", "*START*", "*END*"}

IsAtom(c) == c.k = "A"
IsFun(c)  == c.k = "F"

RECURSIVE Blind(_)
Blind(c) == IF c.k = "A" THEN Atom(c.b, NoF) ELSE Fun(Blind(c.l), c.s, Blind(c.r))

(* erase exactly the features in fs, everywhere *)
RECURSIVE ClearFeats(_, _)
ClearFeats(c, fs) == IF c.k = "A" THEN (IF c.f \in fs THEN Atom(c.b, NoF) ELSE c)
                     ELSE Fun(ClearFeats(c.l, fs), c.s, ClearFeats(c.r, fs))

RECURSIVE Size(_)
Size(c) == IF c.k = "A" THEN 1 ELSE Size(c.l) + Size(c.r)

(* atoms in left-to-right order *)
RECURSIVE Leaves(_)
Leaves(c) == IF c.k = "A" THEN <<c>> ELSE Leaves(c.l) \o Leaves(c.r)

(* the set of features occurring in a category *)
RECURSIVE FeatSet(_)
FeatSet(c) == IF c.k = "A" THEN {c.f} ELSE FeatSet(c.l) \cup FeatSet(c.r)

IsModifier(c) == c.k = "F" /\ c.l = c.r

(* number of arguments and the i-th result category along the spine *)
RECURSIVE NArgs(_)
NArgs(c) == IF c.k = "A" THEN 0 ELSE 1 + NArgs(c.l)

IsVarFeat(f) == IF f.t = "U" THEN f.v = "X" ELSE \E i \in 1..3 : f.kv[i].x
IsIgnorable(f) == f.t = "U" /\ f.v \in {"", "nb"}

(* ---- canonical text as a token sequence: exactly the functor operands bracketed ---- *)
Tok(s) == [s |-> s, f |-> NoF]
FeatText(f) == IF f.t = "U" THEN f.v
               ELSE f.kv[1].k \o "=" \o f.kv[1].v \o "," \o f.kv[2].k \o "=" \o f.kv[2].v
                    \o "," \o f.kv[3].k \o "=" \o f.kv[3].v
FeatTok(f) == [s |-> FeatText(f), f |-> f]
RECURSIVE Show(_)
Operand(c) == IF c.k = "F" THEN <<Tok("(")>> \o Show(c) \o <<Tok(")")>> ELSE Show(c)
Show(c) == IF c.k = "A" THEN (IF c.f = NoF THEN <<Tok(c.b)>> ELSE <<Tok(c.b), Tok("["), FeatTok(c.f), Tok("]")>>)
           ELSE Operand(c.l) \o <<Tok(c.s)>> \o Operand(c.r)

(* ---- bounded universes ---- *)
RECURSIVE CatsUpTo(_, _, _)
CatsUpTo(d, atoms, slashes) ==
  IF d = 0 THEN atoms
  ELSE LET p == CatsUpTo(d - 1, atoms, slashes)
       IN p \cup {Fun(x, s, y) : x \in p, s \in slashes, y \in p}

WellFormed(c) == c.k = "A" => (c.b \in Puncts => c.f = NoF)
=============================================================================
