------------------------------ MODULE GrammarJa ------------------------------
(* C04: the Japanese combinatory rules, from the schemas their symbols name. *)
(*   >    X/Y Y => X            <    Y X\Y => X         >B  X/Y Y/Z => X/Z   *)
(*   <Bn  ((Y\Z)|W1..)  X\Y => ((X\Z)|W1..)   n-1 outer arguments kept       *)
(*   >Bxn X/Y ((Y\Z)|W1..) => ((X\Z)|W1..)    crossed: the result keeps the  *)
(*                                            slash of the secondary functor *)
(*   SSEQ both root categories => the right one                              *)
(* The head is always the right child.  Feature triples must be compatible  *)
(* pointwise; variables are instantiated only from the inputs.  Where       *)
(* compatibility is unspecified (variables in opposite directions) nothing   *)
(* is demanded of the result.                                               *)
EXTENDS Unify

RECURSIVE Peel(_, _)
Peel(c, n) == IF n = 0 THEN [ok |-> TRUE, core |-> c, args |-> <<>>]
              ELSE IF c.k # "F" THEN [ok |-> FALSE, core |-> c, args |-> <<>>]
              ELSE LET p == Peel(c.l, n - 1)
                   IN [ok |-> p.ok, core |-> p.core, args |-> <<[s |-> c.s, a |-> c.r]>> \o p.args]
RECURSIVE Rebuild(_, _)
Rebuild(core, args) == IF args = <<>> THEN core
                       ELSE Fun(Rebuild(core, Tail(args)), Head(args).s, Head(args).a)

Instance(r, A, x, y) ==
  /\ Blind(r) = Blind(A)
  /\ LET lr == Leaves(r)  la == Leaves(A)  pool == FeatSet(x) \cup FeatSet(y)
     IN \A i \in DOMAIN lr : IF IsVarFeat(la[i].f) THEN lr[i].f \in pool ELSE lr[i].f = la[i].f

(* premise verdict pv in {"yes","no","unspec"} *)
Fin(pv, modf, other, A, r, x, y, tag, m1, m2) ==
  IF pv = "no" THEN tag \o ".premise"
  ELSE IF pv = "unspec" THEN ""
  ELSE IF (IF modf THEN r = other ELSE Instance(r, A, x, y) /\ InstanceOf(r, A, m1, m2)) THEN "" ELSE tag \o ".result"

BDepth(sym)  == CASE sym = "<B1" -> 0 [] sym = "<B2" -> 1 [] sym = "<B3" -> 2 [] sym = "<B4" -> 3
BxDepth(sym) == CASE sym = ">Bx1" -> 0 [] sym = ">Bx2" -> 1 [] sym = ">Bx3" -> 2

JaWhy(x, y, e, roots) ==
  LET r == e.c  sym == e.sym IN
  IF e.hl # FALSE THEN "head_not_right"
  ELSE IF sym = ">" THEN
        IF ~(x.k = "F" /\ SlashOK("/", x.s)) THEN ">.shape"
        ELSE Fin(Compat(x.r, y), IsModifier(x), y, x.l, r, x, y, ">", x.r, y)
  ELSE IF sym = "<" THEN
        IF ~(y.k = "F" /\ SlashOK("\\", y.s)) THEN "<.shape"
        ELSE Fin(Compat(y.r, x), IsModifier(y), x, y.l, r, x, y, "<", y.r, x)
  ELSE IF sym = ">B" THEN
        IF ~(x.k = "F" /\ y.k = "F" /\ SlashOK("/", x.s) /\ SlashOK("/", y.s)) THEN ">B.shape"
        ELSE Fin(Compat(x.r, y.l), IsModifier(x), y, Fun(x.l, "/", y.r), r, x, y, ">B", x.r, y.l)
  ELSE IF sym \in {"<B1", "<B2", "<B3", "<B4"} THEN
        LET p == Peel(x, BDepth(sym)) IN
        IF ~(y.k = "F" /\ SlashOK("\\", y.s) /\ p.ok /\ p.core.k = "F" /\ SlashOK("\\", p.core.s)) THEN sym \o ".shape"
        ELSE Fin(Compat(y.r, p.core.l), IsModifier(y), x, Rebuild(Fun(y.l, p.core.s, p.core.r), p.args), r, x, y, sym, y.r, p.core.l)
  ELSE IF sym \in {">Bx1", ">Bx2", ">Bx3"} THEN
        LET p == Peel(y, BxDepth(sym)) IN
        IF ~(x.k = "F" /\ SlashOK("/", x.s) /\ p.ok /\ p.core.k = "F" /\ SlashOK("\\", p.core.s)) THEN sym \o ".shape"
        ELSE Fin(Compat(x.r, p.core.l), IsModifier(x), y, Rebuild(Fun(x.l, p.core.s, p.core.r), p.args), r, x, y, sym, x.r, p.core.l)
  ELSE IF sym = "SSEQ" THEN (IF x \in roots /\ y \in roots /\ r = y THEN "" ELSE "SSEQ.unjustified")
  ELSE "unknown_symbol"

(* ---- unary (type-changing) steps are labelled by the shape of their input ---- *)
RECURSIVE HeadAtom(_)
HeadAtom(c) == IF c.k = "A" THEN c ELSE HeadAtom(c.l)
ModOf(c) == LET f == HeadAtom(c).f IN
            IF f.t = "T" /\ \E i \in 1..3 : f.kv[i].k = "mod"
            THEN (CHOOSE v \in {f.kv[i].v : i \in {j \in 1..3 : f.kv[j].k = "mod"}} : TRUE) ELSE ""
(* S minus backward NP arguments *)
RECURSIVE ClauseShape(_)
ClauseShape(c) == IF c.k = "A" THEN c.b = "S"
                  ELSE c.s = "\\" /\ c.r.k = "A" /\ c.r.b = "NP" /\ ClauseShape(c.l)
(* the label the statement requires, "" when it is silent *)
RequiredUnaryLabel(x) ==
  \* an adverbially used noun (the shipped rule NP[case=nc,mod=adv,fin=f] => S/S) misses no argument: ADV0
  IF x.k = "A" /\ x.b = "NP" /\ ModOf(x) = "adv" THEN "ADV0"
  ELSE IF ~ClauseShape(x) THEN ""
  ELSE IF ModOf(x) = "adn" THEN (CASE NArgs(x) = 0 -> "ADNext" [] NArgs(x) = 1 -> "ADNint" [] OTHER -> "")
  ELSE IF ModOf(x) = "adv" THEN (CASE NArgs(x) = 0 -> "ADV0" [] NArgs(x) = 1 -> "ADV1" [] NArgs(x) = 2 -> "ADV2" [] OTHER -> "")
  ELSE ""

JaFails(e, roots) ==
  {JaWhy(e.x, e.y, e.res[i], roots) : i \in DOMAIN e.res} \ {""}
JaUnaryFails(e) ==
  LET req == RequiredUnaryLabel(e.x) IN
  IF req = "" THEN {} ELSE {"unary_label_should_be_" \o req : i \in {j \in DOMAIN e.res : e.res[j].op # req \/ e.res[j].sym # req}}
=============================================================================
