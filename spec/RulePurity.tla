----------------------------- MODULE RulePurity -----------------------------
(* C14: rule application is a pure, total, reproducible function; a seen-   *)
(* rule filter only removes; unary lookup returns the configured targets.   *)
(* The machine: several processes (different hash seeds) call Apply on      *)
(* keys in any order; memo remembers the first observation of each key and  *)
(* every later observation, by any process, must agree with it.             *)
EXTENDS Naturals, Sequences, FiniteSets, TLC
CONSTANTS Keys, Results, Procs, SeenSets, MaxObs
VARIABLES f, memo, n, last
vars == <<f, memo, n, last>>
Unknown == "unknown"
Init == /\ f \in [Keys -> Results]                 \* the function the implementation computes: any, but fixed
        /\ memo = [k \in Keys |-> Unknown]
        /\ n = 0
        /\ last = [p |-> "none", k |-> "none", r |-> Unknown, seen |-> {}]
(* process p applies the rules to key k, unfiltered *)
Apply(p, k) == /\ n < MaxObs
               /\ last' = [p |-> p, k |-> k, r |-> f[k], seen |-> Keys]
               /\ memo' = [memo EXCEPT ![k] = IF @ = Unknown THEN f[k] ELSE @]
               /\ n' = n + 1 /\ UNCHANGED f
(* process p applies the rules under a seen-rule set S: full result or nothing *)
ApplyFiltered(p, k, S) == /\ n < MaxObs
                          /\ last' = [p |-> p, k |-> k, r |-> IF k \in S THEN f[k] ELSE "empty", seen |-> S]
                          /\ UNCHANGED <<f, memo>> /\ n' = n + 1
Next == \E p \in Procs, k \in Keys : Apply(p, k) \/ \E S \in SeenSets : ApplyFiltered(p, k, S)
Spec == Init /\ [][Next]_vars
(* what the trace specification demands of every observation *)
Reproducible == \A k \in Keys : memo[k] \in {Unknown, f[k]}
ObservationAgrees == (last.k # "none" /\ last.seen = Keys) => last.r = memo[last.k]
FilterOnlyRemoves == last.k # "none" => last.r \in {f[last.k], "empty"}
FilterMembership == last.k # "none" => (last.k \in last.seen <=> last.r = f[last.k]) \/ f[last.k] = "empty"
MemoStable == [][\A k \in Keys : memo[k] # Unknown => memo'[k] = memo[k]]_vars
=============================================================================
