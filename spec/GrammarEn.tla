------------------------------ MODULE GrammarEn ------------------------------
(* C03: the English combinatory rules, one operator per CCG schema, written *)
(* from the schemas the labels name.                                         *)
(*   fa  X/Y Y => X          ba  Y X\Y => X                                  *)
(*   fc  X/Y Y/Z => X/Z      bx  Y/Z X\Y => X/Z   (not over bare N, NP)      *)
(*   gfc X/Y (Y/Z)|W => (X/Z)|W     gbx (Y/Z)|W X\Y => (X/Z)|W  (same)       *)
(*   conj, lp, rp, and the listed type-changing rules                       *)
(* A result is a record [c, op, symcp, hl]; symcp = code points of the      *)
(* symbol (the conjunction symbol is not ASCII).  pb = set of atom bases     *)
(* that count as punctuation (decided from code points by the harness:      *)
(* first character not a letter, or LRB RRB LQU RQU).                        *)
EXTENDS Unify

Fw(a, b) == Fun(a, "/", b)
Bk(a, b) == Fun(a, "\\", b)
A0(b) == Atom(b, NoF)
Sf(f) == Atom("S", UF(f))
Bare(c) == c = A0("N") \/ c = A0("NP")
IsPunct(c, pb) == c.k = "A" /\ c.b \in pb
TypeRaised(c) == c.k = "F" /\ c.r.k = "F" /\ c.r.l = c.l
NbErase(c) == ClearFeats(c, {UF("nb")})

Sym(op) == CASE op = "fa" -> <<62>> [] op = "ba" -> <<60>> [] op \in {"fc", "gfc"} -> <<62, 66>>
             [] op \in {"bx", "gbx"} -> <<60, 66>> [] op = "conj" -> <<60, 934, 62>>
             [] op = "rp" -> <<60, 114, 112, 62>> [] OTHER -> <<>>
SymLp   == <<60, 108, 112, 62>>
SymStar == <<60, 42, 62>>

(* r is the schema result A with its variable features instantiated from the inputs *)
Instance(r, A, x, y) ==
  /\ Blind(r) = Blind(A)
  /\ LET lr == Leaves(r)  la == Leaves(A)  pool == FeatSet(x) \cup FeatSet(y)
     IN \A i \in DOMAIN lr : IF IsVarFeat(la[i].f) THEN lr[i].f \in pool ELSE lr[i].f = la[i].f
(* a modifier returns the other category unchanged *)
Res(r, modf, other, A, x, y, m1, m2) == IF modf THEN r = other ELSE Instance(r, A, x, y) /\ InstanceOf(r, A, m1, m2)
Match(a, b) == Compat(a, b) # "no"

(* "" = justified, otherwise the name of the failing clause; x, y already nb-erased *)
EnWhy(x, y, e, pb) ==
  LET r == e.c IN
  IF e.hl # TRUE THEN "head_not_left"
  ELSE IF e.op = "fa" THEN
        IF e.symcp # Sym("fa") THEN "fa.symbol"
        ELSE IF ~(x.k = "F" /\ SlashOK("/", x.s) /\ Match(x.r, y)) THEN "fa.premise"
        ELSE IF Res(r, IsModifier(x), y, x.l, x, y, x.r, y) THEN "" ELSE "fa.result"
  ELSE IF e.op = "ba" THEN
        IF e.symcp # Sym("ba") THEN "ba.symbol"
        ELSE IF x = Sf("dcl") /\ y = Bk(Sf("em"), Sf("em")) THEN (IF r = x THEN "" ELSE "ba.special")
        ELSE IF ~(y.k = "F" /\ SlashOK("\\", y.s) /\ Match(y.r, x)) THEN "ba.premise"
        ELSE IF Res(r, IsModifier(y), x, y.l, x, y, y.r, x) THEN "" ELSE "ba.result"
  ELSE IF e.op = "fc" THEN
        IF e.symcp # Sym("fc") THEN "fc.symbol"
        ELSE IF ~(x.k = "F" /\ y.k = "F" /\ SlashOK("/", x.s) /\ SlashOK("/", y.s) /\ Match(x.r, y.l)) THEN "fc.premise"
        ELSE IF Res(r, IsModifier(x), y, Fw(x.l, y.r), x, y, x.r, y.l) THEN "" ELSE "fc.result"
  ELSE IF e.op = "bx" THEN
        IF e.symcp # Sym("bx") THEN "bx.symbol"
        ELSE IF ~(x.k = "F" /\ y.k = "F" /\ SlashOK("/", x.s) /\ SlashOK("\\", y.s) /\ Match(y.r, x.l)) THEN "bx.premise"
        ELSE IF Bare(y.r) THEN "bx.over_bare_N_NP"        \* the composed-over category as the backward functor states it
        ELSE IF Res(r, IsModifier(y), x, Fw(y.l, x.r), x, y, y.r, x.l) THEN "" ELSE "bx.result"
  ELSE IF e.op = "gfc" THEN
        IF e.symcp # Sym("gfc") THEN "gfc.symbol"
        ELSE IF ~(x.k = "F" /\ SlashOK("/", x.s) /\ y.k = "F" /\ y.l.k = "F" /\ SlashOK("/", y.l.s) /\ Match(x.r, y.l.l)) THEN "gfc.premise"
        ELSE IF Res(r, IsModifier(x), y, Fun(Fw(x.l, y.l.r), y.s, y.r), x, y, x.r, y.l.l) THEN "" ELSE "gfc.result"
  ELSE IF e.op = "gbx" THEN
        IF e.symcp # Sym("gbx") THEN "gbx.symbol"
        ELSE IF ~(y.k = "F" /\ SlashOK("\\", y.s) /\ x.k = "F" /\ x.l.k = "F" /\ SlashOK("/", x.l.s) /\ Match(y.r, x.l.l)) THEN "gbx.premise"
        ELSE IF Bare(y.r) THEN "gbx.over_bare_N_NP"
        ELSE IF Res(r, IsModifier(y), x, Fun(Fw(y.l, x.l.r), x.s, x.r), x, y, y.r, x.l.l) THEN "" ELSE "gbx.result"
  ELSE IF e.op = "conj" THEN
        IF e.symcp # Sym("conj") THEN "conj.symbol"
        ELSE IF x = A0("conj") /\ y = Bk(A0("NP"), A0("NP")) /\ r = y THEN ""
        ELSE IF x \in {A0(","), A0(";"), A0("conj")} /\ ~IsPunct(y, pb) /\ ~TypeRaised(y) /\ r = Bk(y, y) THEN ""
        ELSE "conj.unjustified"
  ELSE IF e.op = "lp" THEN
        IF e.symcp = SymLp /\ IsPunct(x, pb) /\ r = y THEN ""
        ELSE IF e.symcp = SymLp /\ x \in {A0("LQU"), A0("LRB")} /\ r = Bk(y, y) THEN ""
        ELSE IF e.symcp = SymStar /\ x = A0(",") /\ y \in {Bk(Sf("ng"), A0("NP")), Bk(Sf("pss"), A0("NP"))}
                /\ r = Bk(Bk(A0("S"), A0("NP")), Bk(A0("S"), A0("NP"))) THEN ""
        ELSE IF e.symcp = SymStar /\ x = A0(",") /\ y = Fw(Sf("dcl"), Sf("dcl"))
                /\ r = Fw(Bk(A0("S"), A0("NP")), Bk(A0("S"), A0("NP"))) THEN ""
        ELSE "lp.unjustified"
  ELSE IF e.op = "rp" THEN (IF e.symcp = Sym("rp") /\ IsPunct(y, pb) /\ r = x THEN "" ELSE "rp.unjustified")
  ELSE "unknown_label"

(* schema instances whose matched parts are identical must be produced, with that label *)
EnMust(x, y, pb) ==
     (IF x.k = "F" /\ x.s = "/" /\ x.r = y THEN {[op |-> "fa", c |-> IF IsModifier(x) THEN y ELSE x.l]} ELSE {})
\cup (IF y.k = "F" /\ y.s = "\\" /\ y.r = x THEN {[op |-> "ba", c |-> IF IsModifier(y) THEN x ELSE y.l]} ELSE {})
\cup (IF x.k = "F" /\ y.k = "F" /\ x.s = "/" /\ y.s = "/" /\ x.r = y.l
      THEN {[op |-> "fc", c |-> IF IsModifier(x) THEN y ELSE Fw(x.l, y.r)]} ELSE {})
\cup (IF x.k = "F" /\ y.k = "F" /\ x.s = "/" /\ y.s = "\\" /\ y.r = x.l /\ ~Bare(x.l)
      THEN {[op |-> "bx", c |-> IF IsModifier(y) THEN x ELSE Fw(y.l, x.r)]} ELSE {})
\cup (IF x.k = "F" /\ x.s = "/" /\ y.k = "F" /\ y.l.k = "F" /\ y.l.s = "/" /\ x.r = y.l.l
      THEN {[op |-> "gfc", c |-> IF IsModifier(x) THEN y ELSE Fun(Fw(x.l, y.l.r), y.s, y.r)]} ELSE {})
\cup (IF y.k = "F" /\ y.s = "\\" /\ x.k = "F" /\ x.l.k = "F" /\ x.l.s = "/" /\ y.r = x.l.l /\ ~Bare(y.r)
      THEN {[op |-> "gbx", c |-> IF IsModifier(y) THEN x ELSE Fun(Fw(y.l, x.l.r), x.s, x.r)]} ELSE {})
\cup (IF IsPunct(x, pb) THEN {[op |-> "lp", c |-> y]} ELSE {})
\cup (IF IsPunct(y, pb) THEN {[op |-> "rp", c |-> x]} ELSE {})
\cup (IF x \in {A0(","), A0(";"), A0("conj")} /\ ~IsPunct(y, pb) /\ ~TypeRaised(y) /\ Blind(y) # Bk(A0("NP"), A0("NP"))
      THEN {[op |-> "conj", c |-> Bk(y, y)]} ELSE {})

(* failing clauses of one recorded application: e.x, e.y raw inputs, e.res sequence of results *)
EnFails(e) ==
  LET x == NbErase(e.x)  y == NbErase(e.y)  pb == {e.pb[i] : i \in DOMAIN e.pb} IN
  ({EnWhy(x, y, e.res[i], pb) : i \in DOMAIN e.res} \ {""})
  \cup {"must_yield." \o q.op : q \in {q \in EnMust(x, y, pb) : ~\E i \in DOMAIN e.res : e.res[i].op = q.op /\ e.res[i].c = q.c}}
=============================================================================
