SPECIFICATION Spec
CONSTANTS
  Fam = "plain"
  NW = 3
  HeadLeft = TRUE
  G <- Gram
  TagScores <- Scores0
  DepScores <- Scores01
  KBestN = 1
  MaxStep = 1000
  EstSign = 1
  Ties = "canonical"
INVARIANT TypeOK
INVARIANT Terminal
INVARIANT Monotone
INVARIANT ParentNotBetter
INVARIANT TreesValid
INVARIANT KBestDistinctSorted
CHECK_DEADLOCK FALSE
