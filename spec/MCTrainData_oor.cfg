SPECIFICATION MCSpec
CONSTANTS
  Cats = {"NP"}
  Words = {"w", "vw", "vwx", "vwxy", "wxyzw", "OOR2"}
  MaxTrees = 2
  Depth = 0
  CatCut = 2
  WordCut = 2
  Mode = "train"
  AfixCut = 1
  SpellOf <- MCSpellOf
INVARIANT FilesAreTheCounts
INVARIANT OneSamplePerKeptTree
INVARIANT ReservedWordsAlwaysWritten
INVARIANT SeenRulesOverTargetsOnly
INVARIANT AfixReservedAlwaysWritten
INVARIANT ConllBlocksAreHeadFirstTrees
INVARIANT FourAffixesPerLeaf
INVARIANT ShortWordsFeedTheMarkers
INVARIANT BankIsTheTrees
INVARIANT Emit
PROPERTY CountsOnlyGrow
PROPERTY Terminates
CHECK_DEADLOCK FALSE
