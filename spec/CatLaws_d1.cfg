SPECIFICATION Spec
CONSTANT Sel = "d1"
INVARIANT EqImpliesBlindEq
INVARIANT BlindEqReflSym
INVARIANT BlindEqTrans
INVARIANT ClearLaws
INVARIANT ShowInjective
INVARIANT EmitUniverse
CHECK_DEADLOCK FALSE
