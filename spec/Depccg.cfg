SPECIFICATION Spec
CONSTANTS
  Sents = {s1, s2}
  Masks = {"m1"}
  Formats = {"auto", "auto_extended", "conll", "deriv", "html", "json", "ptb", "xml", "jigg_xml", "prolog", "ja"}
  Readable = {"auto", "ptb", "xml", "jigg_xml", "ja"}
  MaxBest = 2
INVARIANT Aligned
INVARIANT FilterOnlyWithDict
INVARIANT RenderedDenotesResults
INVARIANT RoundTrip
INVARIANT FailureIsOwn
INVARIANT Emit
CHECK_DEADLOCK FALSE
