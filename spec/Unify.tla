------------------------------- MODULE Unify -------------------------------
(* C06: matching a pair of categories against a pair of rule patterns,      *)
(* stated declaratively from the property text.  A pattern is a category    *)
(* whose atoms are variable names (features none).                          *)
EXTENDS Cat

SlashOK(p, s) == p = "|" \/ s = "|" \/ p = s

(* both have the shape the pattern requires *)
RECURSIVE Shape(_, _)
Shape(p, t) == IF p.k = "A" THEN TRUE
               ELSE t.k = "F" /\ SlashOK(p.s, t.s) /\ Shape(p.l, t.l) /\ Shape(p.r, t.r)

Vars(p) == {Leaves(p)[i].b : i \in DOMAIN Leaves(p)}

(* sub-categories of t standing at the occurrences of variable v in p (Shape(p, t) assumed) *)
RECURSIVE Occ(_, _, _)
Occ(p, t, v) == IF p.k = "A" THEN (IF p.b = v THEN <<t>> ELSE <<>>)
                ELSE Occ(p.l, t.l, v) \o Occ(p.r, t.r, v)

(* ---- feature compatibility, three-valued ---- *)
Loose(f) == f.t = "U" /\ f.v \in {"", "nb", "X"}
SameKeys(f, g) == \A i \in 1..3 : f.kv[i].k = g.kv[i].k
(* every differing part of f is a variable *)
Absorbs(f, g) == \A i \in 1..3 : f.kv[i].v = g.kv[i].v \/ f.kv[i].x
FeatCompat(f, g) ==
  IF f = g THEN "yes"
  ELSE IF f.t = "U" /\ g.t = "U" THEN (IF Loose(f) \/ Loose(g) THEN "yes" ELSE "no")
  ELSE IF f.t = "T" /\ g.t = "T" THEN
       IF ~SameKeys(f, g) THEN "no"
       ELSE IF Absorbs(f, g) \/ Absorbs(g, f) THEN "yes"
       ELSE IF \A i \in 1..3 : f.kv[i].v = g.kv[i].v \/ f.kv[i].x \/ g.kv[i].x THEN "unspec"  \* variables in opposite directions
       ELSE "no"
  \* the two feature systems on one position: compatible exactly when the one-part side is absent, 'nb' or a variable
  ELSE IF (f.t = "U" /\ Loose(f)) \/ (g.t = "U" /\ Loose(g)) THEN "yes" ELSE "no"

Worst(S) == IF "no" \in S THEN "no" ELSE IF "unspec" \in S THEN "unspec" ELSE "yes"

(* leaf-wise compatibility of two categories that are equal up to features *)
LeafCompat(a, b) == LET la == Leaves(a)  lb == Leaves(b)
                    IN Worst({FeatCompat(la[i].f, lb[i].f) : i \in DOMAIN la})
(* structural match with compatible features (used by the grammar modules) *)
Compat(a, b) == IF Blind(a) # Blind(b) THEN "no" ELSE LeafCompat(a, b)

Last(s) == s[Len(s)]
AllBlindEq(s) == \A i \in DOMAIN s : Blind(s[i]) = Blind(s[1])

(* "ok" | "fail" | "unspec" *)
Verdict(px, py, x, y) ==
  IF ~(Shape(px, x) /\ Shape(py, y)) THEN "fail"
  ELSE IF \E v \in Vars(px) \cup Vars(py) : ~AllBlindEq(Occ(px, x, v) \o Occ(py, y, v)) THEN "fail"
  ELSE LET shared == Vars(px) \cap Vars(py)
           \* a variable that stands at several places of one pattern: the statement speaks of "corresponding positions" and does not
           \* say which of them correspond.  The narrowest reading compares the last occurrence on either side (what the class
           \* does), the widest every pair of occurrences of the variable; any other reading lies between the two, so where they
           \* agree the verdict is determined, and where they differ it is unspecified.  Linear patterns (all the grammars use):
           \* one occurrence on either side, the readings coincide.
           wLast == Worst({LeafCompat(Last(Occ(px, x, v)), Last(Occ(py, y, v))) : v \in shared})
           wAll == Worst(UNION {LET o == Occ(px, x, v) \o Occ(py, y, v) IN {LeafCompat(o[i], o[j]) : i \in DOMAIN o, j \in DOMAIN o} : v \in shared})
           w == IF wLast = wAll THEN wLast ELSE "unspec"
       IN CASE w = "yes" -> "ok" [] w = "no" -> "fail" [] OTHER -> "unspec"

(* a binding r for variable v: the matched sub-category with at most its variable features
   replaced by features from the inputs *)
BindingAllowed(px, py, x, y, v, r) ==
  LET occs == Occ(px, x, v) \o Occ(py, y, v)
      pool == FeatSet(x) \cup FeatSet(y)
      lr   == Leaves(r)
  IN /\ Len(occs) > 0
     /\ Blind(r) = Blind(occs[1])
     /\ \A i \in DOMAIN lr :
          \/ \E k \in DOMAIN occs : Leaves(occs[k])[i].f = lr[i].f
          \/ (\E k \in DOMAIN occs : IsVarFeat(Leaves(occs[k])[i].f)) /\ lr[i].f \in pool


(* ---- instantiation of a schema result (used by GrammarEn / GrammarJa) ----
   r is the schema result A with its variable features instantiated.  m1, m2 are the two sub-categories the schema
   matched against each other.  A variable feature f of A that met a *concrete* feature in the match must be replaced
   by one of the features it met (which one, when they conflict, is unspecified); a variable that met only absent /
   'nb' / variable features may also stay as it is; a variable that does not occur in the matched parts stays. *)
Met(f, m1, m2) == LET l1 == Leaves(m1)  l2 == Leaves(m2) IN
                  {l2[i].f : i \in {j \in DOMAIN l1 : l1[j].f = f}} \cup {l1[i].f : i \in {j \in DOMAIN l2 : l2[j].f = f}}
ConcreteFeat(g) == ~IsVarFeat(g) /\ ~IsIgnorable(g)
(* three-part features are instantiated value by value: g is at least as specific as f *)
Subsumes(f, g) == /\ f.t = "T" /\ g.t = "T"
                  /\ \A i \in 1..3 : f.kv[i].k = g.kv[i].k /\ (f.kv[i].v = g.kv[i].v \/ f.kv[i].x)
AllowedInst(f, m1, m2) ==
  LET b == Met(f, m1, m2) IN
  IF f.t = "T"
  THEN \* a triple that met a strictly more specific one is replaced by a met triple it subsumes (never generalised, constants
       \* are never lost); one that met nothing more specific stays as it is
       IF \E g \in b : Subsumes(f, g) /\ g # f THEN {g \in b : Subsumes(f, g)} ELSE {f}
  ELSE IF \E g \in b : ConcreteFeat(g) THEN b ELSE b \cup {f}
InstanceOf(r, A, m1, m2) ==
  /\ Blind(r) = Blind(A)
  /\ Blind(m1) = Blind(m2)
  /\ LET lr == Leaves(r)  la == Leaves(A)
     IN \A i \in DOMAIN lr : IF IsVarFeat(la[i].f) THEN lr[i].f \in AllowedInst(la[i].f, m1, m2) ELSE lr[i].f = la[i].f

(* instantiate a pattern with a substitution (function from variable names to categories);
   '|' in the pattern is spelled with the slash given *)
RECURSIVE Inst(_, _, _)
Inst(p, sub, bar) == IF p.k = "A" THEN sub[p.b]
                     ELSE Fun(Inst(p.l, sub, bar), IF p.s = "|" THEN bar ELSE p.s, Inst(p.r, sub, bar))
=============================================================================
