SPECIFICATION Spec
CONSTANTS
  Universe <- Univ
  Sel = "u1mid"
  DecoDepth = 2
INVARIANT RoundTrip
INVARIANT PrintStable
INVARIANT FlatRejected
INVARIANT NeverStuck
INVARIANT StackShape
PROPERTY Progress
CHECK_DEADLOCK FALSE
