----------------------------- MODULE UnifyTrace -----------------------------
(* Trace validation for C06: calls of the real Unification objects judged by *)
(* Unify.tla; life-cycle histories judged by the UnifyObj machine.          *)
EXTENDS Unify, Json, IOUtils

Trace == ndJsonDeserialize(IOEnv.TRACE_FILE)
VARIABLES l, phase

Say(id, clause) == PrintT("REJECT " \o ToString(id) \o " " \o clause)
If(cond, name) == IF cond THEN {} ELSE {name}

FailsCall(e) ==
  LET vd == Verdict(e.px, e.py, e.x, e.y) IN
     If(~e.raised, "C06.matcher_raised")
  \cup If((vd = "ok" /\ ~e.raised) => e.ok, "C06.should_match_but_failed")
  \cup If((vd = "fail" /\ ~e.raised) => ~e.ok, "C06.should_fail_but_matched")
  \cup If((e.ok /\ vd # "fail") => \A i \in DOMAIN e.binds : e.binds[i].readable, "C06.binding_unreadable_after_success")
  \cup If((e.ok /\ vd # "fail") => \A i \in DOMAIN e.binds :
            e.binds[i].readable => BindingAllowed(e.px, e.py, e.x, e.y, e.binds[i].v, e.binds[i].c),
          "C06.binding_not_matched_subcategory")
  \cup If((~e.ok /\ ~e.raised) => \A i \in DOMAIN e.binds : ~e.binds[i].readable, "C06.binding_readable_after_failure")
  \cup If(~e.raised => e.again_raised, "C06.answers_twice")
  \cup If(e.x2 = e.x /\ e.y2 = e.y, "C06.matcher_changed_its_arguments")

(* life-cycle: an action is accepted by the object exactly when UnifyObj enables it *)
Enabled(a) == CASE a \in {"call_ok", "call_fail"} -> phase = "fresh"
                [] a = "get" -> phase = "ok"
NewPhase(e) == CASE e.e = "lcreset" -> "fresh"
                 [] e.e = "lc" /\ e.a = "call_ok" /\ ~e.refused -> "ok"        \* follow the object (resynchronise)
                 [] e.e = "lc" /\ e.a = "call_fail" /\ ~e.refused -> "failed"
                 [] OTHER -> phase
FailsLc(e) == If(e.refused = ~Enabled(e.a), "C06.lifecycle_" \o e.a \o "_in_" \o phase)
              \cup If((~e.refused /\ e.a = "call_ok") => e.ret = TRUE, "MACHINERY.lifecycle_inputs")
              \cup If((~e.refused /\ e.a = "call_fail") => e.ret = FALSE, "MACHINERY.lifecycle_inputs")

Fails(e) == CASE e.e = "call" -> FailsCall(e)
              [] e.e = "lcreset" -> {}
              [] e.e = "lc" -> FailsLc(e)
              [] OTHER -> {"MACHINERY.unknown_event"}

Init == l = 1 /\ phase = "fresh"
Next == /\ l <= Len(Trace)
        /\ l' = l + 1
        /\ phase' = NewPhase(Trace[l])
        /\ \A c \in Fails(Trace[l]) : Say(Trace[l].id, c)
Spec == Init /\ [][Next]_<<l, phase>>
Consumed == TLCGet("stats").diameter - 1 = Len(Trace)
=============================================================================
