----------------------------- MODULE ValueTrace -----------------------------
(* Trace validation for C13: equality, hashing, comparison with text,       *)
(* feature-blind comparison, feature erasure, and container histories        *)
(* (KeyedStore) recorded from real dict / set objects keyed by categories.  *)
EXTENDS Cat, Json, IOUtils

Trace == ndJsonDeserialize(IOEnv.TRACE_FILE)
VARIABLES l, store

Say(id, clause) == PrintT("REJECT " \o ToString(id) \o " " \o clause)
If(cond, name) == IF cond THEN {} ELSE {name}
Range(s) == {s[i] : i \in DOMAIN s}

FailsEq(e) ==
     If(e.res = (e.a = e.b), "C13.eq_iff_same_structure")
  \cup If(e.res2 = e.res, "C13.eq_not_symmetric")
  \cup If(e.ne = ~e.res, "C13.ne_not_negation_of_eq")
  \cup If((e.a = e.b) => e.heq, "C13.equal_but_different_hash")
  \* ... also once one of the two has been printed / compared with a text (a value's hash never changes)
  \cup If(("heq2" \in DOMAIN e /\ e.a = e.b) => e.heq2, "C13.equal_but_different_hash")
  \cup If("hstable" \in DOMAIN e => e.hstable, "C13.hash_of_a_value_changed")
(* what C13 states of ANY two values, whatever they are (used for values outside the alphabet of the model) *)
FailsEqAny(e) ==
     If(e.res2 = e.res, "C13.eq_not_symmetric")
  \cup If(e.ne = ~e.res, "C13.ne_not_negation_of_eq")
  \cup If(e.res => (e.heq /\ e.heq2), "C13.equal_but_different_hash")
  \cup If(e.hstable, "C13.hash_of_a_value_changed")
FailsEqt(e) == If(e.res = (e.toks = Show(e.a) /\ ~e.blank), "C13.text_eq_iff_canonical")
FailsXor(e) == If(e.res = (Blind(e.a) = Blind(e.b)), "C13.xor_is_blind_equality")
FailsClr(e) ==
     If(e.res = ClearFeats(e.a, Range(e.fs)), "C13.clear_exactly_named_features")
  \cup If(e.res2 = e.res, "C13.clear_not_idempotent")
  \cup If(e.a2 = e.a, "C13.clear_changed_its_argument")

(* container operations: KeyedStore's actions, found = key's value is in the store *)
NewStore(e) == CASE e.e = "reset" -> {}
                 [] e.e = "ins" -> store \cup {e.key}
                 [] e.e = "del" -> store \ {e.key}
                 [] OTHER -> store
FailsStore(e) ==
     If(e.found = (e.key \in store), "C13.lookup_finds_equal_key")
  \cup If(e.size = Cardinality(NewStore(e)), "C13.container_size")

Fails(e) == CASE e.e = "eq" -> FailsEq(e)
              [] e.e = "eqd" -> FailsEqAny(e)
              [] e.e = "eqt" -> FailsEqt(e)
              [] e.e = "xor" -> FailsXor(e)
              [] e.e = "clr" -> FailsClr(e)
              [] e.e = "reset" -> {}
              [] e.e \in {"ins", "look", "del"} -> FailsStore(e)
              [] OTHER -> {"MACHINERY.unknown_event"}

Init == l = 1 /\ store = {}
Next == /\ l <= Len(Trace)
        /\ l' = l + 1
        /\ store' = NewStore(Trace[l])
        /\ \A c \in Fails(Trace[l]) : Say(Trace[l].id, c)
Spec == Init /\ [][Next]_<<l, store>>
Consumed == TLCGet("stats").diameter - 1 = Len(Trace)
=============================================================================
