----------------------------- MODULE RenderTrace -----------------------------
(* Trace validation for the rendering family (C07 and the decoding parts of   *)
(* C08 C12b C15 C18 C19 C20): documents produced by the real encoders and     *)
(* trees returned by the real readers, judged by Formats.tla.                 *)
EXTENDS Formats, Json, IOUtils

Trace == ndJsonDeserialize(IOEnv.TRACE_FILE)
VARIABLE l
Say(id, clause) == PrintT("REJECT " \o ToString(id) \o " " \o clause)
Pre(p, S) == {p \o w : w \in S}

(* one (sentence, tree) of a rendered document against the derivation that was rendered *)
FailsTree(e) ==
  Pre(e.p \o "." \o e.fmt \o ".",
      CASE e.fmt = "conll" -> ConllFails(e.d, e.rows) \cup Pre("fragments_", NodeFails("conll_frag", e.d, e.x))
        [] e.fmt = "deriv" -> DerivFails(e.d, e.rec)
        [] e.fmt = "jigg_xml" -> JiggCcgFails(e.d, e.ccg, e.toks, e.usesym) \cup (IF e.first THEN JiggTokensFails(e.d, e.toks) ELSE {})
        [] e.fmt = "prolog" -> PrologFails(e.lang, e.d, e.term, e.lower)
        [] e.fmt = "xml" -> NodeFails("xml", e.d, e.x) \cup (IF XmlOffsetsOK(e.x) THEN {} ELSE {"offsets"})
        [] OTHER -> NodeFails(e.fmt, e.d, e.x))
(* a tree returned by a reader: structural clauses (prefix R.) belong to the round-trip property e.p,
   label clauses (prefix L.) to C12 *)
FailsRead(e) ==
  LET fs == ReadFails(e.fmt, e.d, e.r)
      Strip(w) == SubSeq(w, 3, Len(w))
  IN {e.p \o "." \o e.fmt \o ".read_" \o w : w \in {"shape", "cats", "words", "pos", "attrs", "labels", "symbols", "heads"} \cap {x \in {"shape", "cats", "words", "pos", "attrs", "labels", "symbols", "heads"} : ("R." \o x) \in fs}}
     \cup {"C12." \o e.fmt \o "." \o w : w \in {x \in {"derivable_node_without_rule_label", "head_not_from_rule", "underivable_node_not_unknown"} : ("L." \o x) \in fs}}
     \* C15 states the rule labels of the C&C XML round trip as well: a derivable binary node must come back with the label of a rule deriving it
     \cup (IF e.p = "C15" /\ e.fmt = "xml" /\ "L.derivable_node_without_rule_label" \in fs THEN {"C15.xml.read_labels"} ELSE {})
FailsNumbering(e) == IF e.got = e.expect THEN {} ELSE {e.p \o "." \o e.fmt \o ".numbering"}

Fails(e) == CASE e.e = "tree" -> FailsTree(e)
              [] e.e = "numbering" -> FailsNumbering(e)
              [] e.e = "read" -> FailsRead(e)
              [] e.e = "built" -> Pre(e.p \o ".build_ccg_tree.", (IF e.x.ok THEN JEq(e.d, e.x, e.toks, e.usesym, 0) \cup (IF JTiles(e.x) THEN {} ELSE {"offsets"}) ELSE {"shape"}))
              [] e.e = "normalized" -> (IF Len(e.after) > 0 /\ e.after[1] = 95 /\ \A i \in DOMAIN e.after : e.after[i] \notin {46, 44, 40, 41, 33, 45}
                                        THEN {} ELSE {e.p \o ".normalize_tokens.identifier_with_logic_punctuation"})
              \* the token list returned next to a tree: the tree's own leaf tokens where the reader builds both from one object
              \* (auto, xml, ptb); the sentence's token elements, one per leaf, where the file keeps tokens apart (jigg_xml, ja)
              [] e.e = "rtoks" -> (IF (IF e.fmt \in {"auto", "xml", "ptb"} THEN e.list = e.leaf ELSE Len(e.list) = Len(e.leaf))
                                   THEN {} ELSE {e.p \o "." \o e.fmt \o ".token_list_is_not_the_leaf_tokens"})
              [] e.e = "train" -> Pre("DATA.convert_auto_to_json.", TrainFails(e.r, e.s))
              [] e.e = "reader_raised" -> {e.p \o "." \o e.fmt \o ".reader_raised"}
              [] e.e = "count" -> (IF e.got = e.expect THEN {} ELSE {e.p \o "." \o e.fmt \o ".number_of_trees_read"})
              [] e.e = "text_eq" -> (IF e.a = e.b THEN {} ELSE {e.p \o "." \o e.fmt \o "." \o e.what})
              [] e.e = "must_raise" -> (IF e.raised THEN {} ELSE {e.p \o "." \o e.fmt \o "." \o e.what})
              [] e.e = "jsent" -> Pre(e.p \o ".jigg_xml.", JiggSentenceFails(e.spanids, e.ccgids))
              [] e.e = "dispatch" -> (IF e.ran = <<ReaderByExtension(e.name)>> THEN {} ELSE {"DISPATCH.readers_run_are_not_exactly_the_one_the_extension_names"})
              [] e.e = "unreadable" -> {e.p \o "." \o e.fmt \o ".unreadable"}
              [] e.e = "raised" -> {e.p \o "." \o e.fmt \o ".render_raised"}
              [] OTHER -> {"MACHINERY.unknown_event"}
Init == l = 1
Next == /\ l <= Len(Trace)
        /\ l' = l + 1
        /\ \A c \in Fails(Trace[l]) : Say(Trace[l].id, c)
Spec == Init /\ [][Next]_l
Consumed == TLCGet("stats").diameter - 1 = Len(Trace)
=============================================================================
