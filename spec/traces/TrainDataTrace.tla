--------------------------- MODULE TrainDataTrace ---------------------------
(* Trace validation of the real training-data creator against TrainData.tla.  One event per run of                      *)
(* TrainingDataCreator.create_traindata on an AUTO file depccg itself printed: the event carries the flat projection of *)
(* every tree of the bank (computed by the harness from its own tree values, not from what the creator read), the two   *)
(* cuts, and the six files the creator wrote, parsed line by line (`key # count`).  The files must be exactly what      *)
(* TrainData!Expected says; nothing but the bank and the cuts is taken from the event to compute it.                     *)
EXTENDS TrainData, IOUtils
Trace == ndJsonDeserialize(IOEnv.TRACE_FILE)
NoSpelling == [w \in {} |-> <<>>]      \* recorded leaves carry their own spelling (the characters of the word as the harness built it)
VARIABLE l
Say(id, clause) == PrintT("REJECT " \o ToString(id) \o " " \o clause)
If(cond, name) == IF cond THEN {} ELSE {"DATA." \o name}
Rows1(f) == {<<x, f[x]>> : x \in DOMAIN f}
Rows2(f) == {<<p[1], p[2], f[p]>> : p \in DOMAIN f}
NoDup(rows) == Cardinality(Range(rows)) = Len(rows)
Fails(e) ==
  IF e.e # "traindata" THEN {"MACHINERY.unknown_event"}
  ELSE IF e.raised THEN {"DATA.creator_raised"}
  ELSE LET x == Expected(e.bank, e.ccut, e.wcut, e.acut, e.mode) IN
            If(NoDup(e.target) /\ Range(e.target) = Rows1(x.target), "target_is_not_the_frequent_leaf_categories_with_counts")
       \cup If(NoDup(e.words) /\ Range(e.words) = Rows1(x.words), "words_is_not_the_frequent_lowercased_words_and_reserved_entries")
       \cup If(NoDup(e.seen) /\ Range(e.seen) = Rows2(x.seen), "seen_rules_is_not_the_binary_pairs_over_target_categories")
       \cup If(NoDup(e.unary) /\ Range(e.unary) = Rows2(x.unary), "unary_rules_is_not_every_unary_pair_parent_first")
       \cup If(NoDup(e.prefixes) /\ Range(e.prefixes) = Rows1(x.prefixes), "prefixes_is_not_the_frequent_first_1_to_4_characters_and_reserved_entries")
       \cup If(NoDup(e.suffixes) /\ Range(e.suffixes) = Rows1(x.suffixes), "suffixes_is_not_the_frequent_last_1_to_4_characters_and_reserved_entries")
       \cup If(e.nsamples = Len(KeptIn(e.bank, e.mode)), "not_one_sample_per_kept_tree")
       \cup If(e.sents = x.sents, "sentence_file_is_not_the_words_of_the_kept_trees_case_kept")
       \cup If(e.layout /\ e.conll = x.conll, "conll_file_is_not_one_row_per_word_with_head_first_dependencies")
TInit == /\ l = 1 /\ bank = <<>> /\ InitRest
TNext == /\ l <= Len(Trace) /\ l' = l + 1
         /\ \A c \in Fails(Trace[l]) : Say(Trace[l].id, c)
         /\ UNCHANGED vars
TSpec == TInit /\ [][TNext]_<<vars, l>>
Consumed == TLCGet("stats").diameter - 1 = Len(Trace)
=============================================================================
