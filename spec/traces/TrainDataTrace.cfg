SPECIFICATION TSpec
CONSTANTS
  Cats = {"NP"}
  Words = {"w"}
  MaxTrees = 1
  Depth = 0
  CatCut = 1
  WordCut = 1
  Mode = "train"
  AfixCut = 1
  SpellOf <- NoSpelling
POSTCONDITION Consumed
CHECK_DEADLOCK FALSE
