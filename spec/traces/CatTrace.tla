------------------------------ MODULE CatTrace ------------------------------
(* Trace validation for the `cat` family (C05 C13 C17b): events recorded from *)
(* the real depccg.cat are judged against CatReaderOps / Cat.                *)
(* One event per line; every failing clause of an event is printed as       *)
(*   "REJECT <event id> <clause>"                                           *)
(* and the event is consumed anyway (total verdicts, DESIGN 4.1).            *)
EXTENDS CatReaderOps, Json, IOUtils

Trace == ndJsonDeserialize(IOEnv.TRACE_FILE)
VARIABLE l

Say(id, clause) == PrintT("REJECT " \o ToString(id) \o " " \o clause)
If(cond, name) == IF cond THEN {} ELSE {name}

(* ---- rt: a text generated from value e.v (kind deco | flat) or taken from a shipped file (inv) was
        given to Category.parse; e.ok/e.res = outcome; e.ptoks = tokens of str(result);
        e.rok/e.rres = outcome of parsing that printed text again ---- *)
FailsRT(e) ==
  LET rd == Read(e.toks) IN
     If(e.kind = "deco" => (rd.st = "ok" /\ rd.out = e.v), "MACHINERY.generator_text_not_of_value")
  \cup If(e.kind = "flat" => rd.st = "rej", "MACHINERY.generator_flat_not_flat")
  \cup If(rd.st = "ok" => e.ok, "C05.wellformed_text_rejected")
  \cup If((rd.st = "ok" /\ e.ok) => e.res = rd.out, "C05.text_read_as_other_value")
  \cup If(e.kind = "flat" => ~e.ok, "C05.unbracketed_slashes_accepted")
  \cup If((rd.st = "ok" /\ e.ok) => (e.ptoks = Show(rd.out) /\ ~e.pblank), "C05.print_not_canonical")
  \cup If((rd.st = "ok" /\ e.ok) => (e.rok /\ e.rres = e.res), "C05.print_then_parse_differs")

(* ---- pv: value e.v built with constructors, printed (e.ptoks) and parsed back (e.rok, e.rres) ---- *)
FailsPV(e) ==
     If(e.ptoks = Show(e.v) /\ ~e.pblank, "C05.print_not_canonical")
  \cup If(e.rok /\ e.rres = e.v, "C05.print_then_parse_differs")

Fails(e) == CASE e.e = "rt" -> FailsRT(e)
              [] e.e = "pv" -> FailsPV(e)
              [] OTHER -> {"MACHINERY.unknown_event"}

Init == l = 1
Next == /\ l <= Len(Trace)
        /\ l' = l + 1
        /\ \A c \in Fails(Trace[l]) : Say(Trace[l].id, c)
Spec == Init /\ [][Next]_l
Consumed == TLCGet("stats").diameter - 1 = Len(Trace)
=============================================================================
