----------------------------- MODULE AStarTrace -----------------------------
(* Design-level trace validation: every item the real parse_sentence takes     *)
(* from its agenda (pop hook) must be a step of AStar.tla - the same item (all *)
(* fields, back pointers as stored-item numbers) must be one of the agenda's   *)
(* best items in the specification's state, and the specification's chart /    *)
(* agenda / goal evolve by PopGoal | PopDrop | PopStore of that item.  One TLC  *)
(* run validates many searches that share a grammar, sentence length and        *)
(* configuration (header file); per search the events are                       *)
(*   matrices{tag, dep}  setup  pop{...}*  result{failed, scores}               *)
(* A mismatch prints REJECT <id> DESIGN.<what> and the rest of that search is   *)
(* skipped (live = FALSE): a different but correct design is not a property    *)
(* violation, so these clauses are reported as a conformance statistic.        *)
EXTENDS AStar, Json, IOUtils

Trace == ndJsonDeserialize(IOEnv.TRACE_FILE)
Hdr   == JsonDeserialize(IOEnv.HDR_FILE)
TraceG == Hdr.g
TraceK == Hdr.k
TraceMax == Hdr.maxstep
VARIABLES l, live
tvars == <<vars, l, live>>
Say(id, clause) == PrintT("REJECT " \o ToString(id) \o " " \o clause)

Cur == Trace[l]
Step == l' = l + 1
Keep == UNCHANGED vars
Same(it, e) == /\ it.fin = e.fin /\ it.cat = e.cat /\ it.start = e.start /\ it.len = e.len /\ it.head = e.head
               /\ it.in = e.in /\ it.out = e.out /\ it.rule = e.rule /\ it.left = e.left /\ it.right = e.right

TrMatrices == /\ Cur.e = "matrices" /\ Step /\ live' = TRUE
              /\ tag' = Cur.tag /\ dep' = Cur.dep
              /\ bt' = [i \in 1..N |-> MaxS({Cur.tag[i][c] : c \in 1..G.K})]
              /\ bd' = [i \in 1..N |-> MaxS({Cur.dep[i][h] : h \in 1..(N + 1)})]
              /\ agenda' = {} /\ stored' = <<>> /\ goal' = <<>> /\ step' = 0 /\ lastPrio' = 0 /\ mono' = TRUE /\ status' = "run"
TrSetup == /\ Cur.e = "setup" /\ Step /\ UNCHANGED live
           /\ agenda' = UNION {{Leaf(i, c) : c \in {d \in 1..G.K : Admitted(i, d)}} : i \in 1..N}
           /\ UNCHANGED <<tag, dep, bt, bd, stored, goal, step, lastPrio, mono, status>>
Matching(e) == {it \in MaxItems : Same(it, e)}
TrPopOK == /\ Cur.e = "pop" /\ live /\ Running /\ Matching(Cur) # {}
           /\ Step /\ UNCHANGED live
           /\ LET it == CHOOSE x \in Matching(Cur) : TRUE IN
              \/ PopGoalIt(it)
              \/ (PopDropIt(it) /\ (Cur.stored = 0 \/ Say(Cur.id, "DESIGN.item_stored_although_the_cell_has_its_category")))
              \/ (PopStoreIt(it) /\ (Cur.stored = Len(stored) + 1 \/ Say(Cur.id, "DESIGN.item_not_stored_where_AStar_stores_it")))
TrPopBad == /\ Cur.e = "pop" /\ live /\ ~(Running /\ Matching(Cur) # {})
            /\ Say(Cur.id, IF ~Running THEN "DESIGN.pop_after_the_loop_condition_failed"
                           ELSE IF \E it \in agenda : Same(it, Cur) THEN "DESIGN.popped_item_is_not_a_best_item_of_the_agenda"
                           ELSE "DESIGN.popped_item_not_in_the_agenda_of_AStar")
            /\ Step /\ live' = FALSE /\ Keep
TrPopSkip == Cur.e = "pop" /\ ~live /\ Step /\ UNCHANGED live /\ Keep
TrResult == /\ Cur.e = "result" /\ Step /\ UNCHANGED live /\ Keep
            /\ (~live \/ (/\ (~Running \/ Say(Cur.id, "DESIGN.search_stopped_while_AStar_can_continue"))
                          /\ ((Cur.failed = (Len(goal) = 0)) \/ Say(Cur.id, "DESIGN.failure_status_differs"))
                          /\ (Cur.failed \/ Len(goal) = 0
                                \/ SortSeq(Cur.scores, LAMBDA a, b : a > b) = SortSeq([i \in DOMAIN goal |-> goal[i].in], LAMBDA a, b : a > b)
                                \/ Say(Cur.id, "DESIGN.result_scores_differ"))))
TrInit == /\ l = 1 /\ live = FALSE
          /\ tag = <<>> /\ dep = <<>> /\ bt = <<>> /\ bd = <<>> /\ agenda = {} /\ stored = <<>> /\ goal = <<>>
          /\ step = 0 /\ lastPrio = 0 /\ mono = TRUE /\ status = "run"
TrNext == l <= Len(Trace) /\ (TrMatrices \/ TrSetup \/ TrPopOK \/ TrPopBad \/ TrPopSkip \/ TrResult)
TrSpec == TrInit /\ [][TrNext]_tvars
Consumed == TLCGet("stats").diameter - 1 = Len(Trace)
(* the design-level invariants hold along every validated behaviour of the implementation *)
TrMonotone == live => mono
TrParentNotBetter == live => ParentNotBetter
=============================================================================
