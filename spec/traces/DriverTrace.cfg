SPECIFICATION TSpec
CONSTANT MaxLines = 3
POSTCONDITION Consumed
CHECK_DEADLOCK FALSE
