----------------------------- MODULE ParserTrace -----------------------------
(* Trace validation for the parser family (C01 C02 C09 C10 C12a C16): one    *)
(* event per search of the real parse_sentence (driven through the real      *)
(* depccg.parsing.run), carrying the instance (Oracles.tla format), the      *)
(* priorities of all items taken from the agenda (pop hook) and the result.  *)
EXTENDS Oracles, Json, IOUtils

Trace == ndJsonDeserialize(IOEnv.TRACE_FILE)
VARIABLE l
Say(id, clause) == PrintT("REJECT " \o ToString(id) \o " " \o clause)
If(cond, name) == IF cond THEN {} ELSE {name}

TreeFails(t, i) ==
  LET tr == t.trees[i]  ev == Eval(t, tr.tree, 1) IN
     If(ev.ok /\ ev.n = t.N, "C02.not_a_derivation_of_the_sentence")
  \cup If(ev.c \in Range(t.roots), "C02.root_not_allowed")
  \cup If(~(t.N > 1 /\ tr.tree.k = "U"), "C02.unary_at_root")
  \cup If(ev.adm, "C16.leaf_tag_excluded_by_beam")
  \cup If(ev.adm, "C02.leaf_supertag_not_admitted")      \* C02 states it too: each leaf carries a supertag admitted for its token
  \cup If(ev.lic, "C12.label_not_of_creating_result")
  \cup If((ev.ok /\ ev.n = t.N) => tr.score = ev.sc + t.dep[ev.h][1], "C09.score_not_model_score")

Exhausted(t) == t.npops >= t.maxstep
Fails(t) ==
  LET kk  == Min2(t.k, t.kcap)
      hi  == KBest(t, kk, LAMBDA i, c : ~CertExcluded(t, i, c))      \* over every tag that is not certainly excluded
      lo  == KBest(t, kk, LAMBDA i, c : CertAdmitted(t, i, c))       \* over the tags that are certainly admitted
      got == [i \in 1..Len(t.trees) |-> t.trees[i].score]
  IN   If(\A i \in 2..Len(t.prios) : t.prios[i] <= t.prios[i - 1], "C01.pop_priority_increased")
  \cup If(t.npops <= t.maxstep, "C01.step_budget_exceeded")
  \cup (IF t.failed
        THEN    If(Len(lo) = 0 \/ Exhausted(t), "C01.failed_but_derivation_exists")
           \cup If(Len(lo) = 0 \/ Exhausted(t), "C16.failed_although_a_derivation_over_admitted_tags_exists")
           \cup If(Len(lo) = 0 \/ Exhausted(t), "C10.fewer_than_min_k_derivations")      \* none returned although at least one exists
           \cup If(t.ph.n = 1 /\ t.ph.neginf, "C09.placeholder_score_not_minus_infinity")
           \cup If(t.ph.n = 1 /\ t.ph.leaf, "C02.placeholder_shape")
        ELSE UNION {TreeFails(t, i) : i \in 1..Len(t.trees)}
           \cup If(Len(t.trees) >= 1 /\ Len(t.trees) <= t.k, "C10.count_exceeds_k")
           \cup If(Len(hi) > 0, "C16.result_needs_excluded_tags")
           \cup If((t.uniform /\ Len(hi) > 0) => (got[1] <= hi[1] /\ (Len(lo) = 0 \/ Exhausted(t) \/ got[1] >= lo[1])), "C01.first_parse_not_optimal")
           \cup If(\A i \in 1..(Len(got) - 1) : got[i] >= got[i + 1], "C10.not_best_first")
           \cup If(\A i, j \in 1..Len(t.trees) : i < j => t.trees[i].tree # t.trees[j].tree, "C10.duplicate_tree")
           \cup If((t.uniform /\ NoBoundaryTie(t) /\ ~Exhausted(t)) =>
                     SubSeq(got, 1, Min2(kk, Len(got))) = SubSeq(hi, 1, Min2(Len(hi), Min2(kk, Len(got)))), "C10.not_the_k_largest_scores")
           \cup If((t.uniform /\ NoBoundaryTie(t) /\ ~Exhausted(t) /\ Len(got) < kk) => Len(hi) <= Len(got), "C10.fewer_than_min_k_derivations"))

Init == l = 1
Next == /\ l <= Len(Trace)
        /\ l' = l + 1
        /\ \A c \in Fails(Trace[l]) : Say(Trace[l].id, c)
Spec == Init /\ [][Next]_l
Consumed == TLCGet("stats").diameter - 1 = Len(Trace)
=============================================================================
