----------------------------- MODULE BatchTrace -----------------------------
(* Trace validation for C11: results of depccg.parsing.run on whole batches  *)
(* (any chunking / process count / order) must be explained by one function  *)
(* of the sentence: ref[sid] is bound by the sentence's solo observation.    *)
EXTENDS Integers, Sequences, FiniteSets, TLC, Json, IOUtils

Trace == ndJsonDeserialize(IOEnv.TRACE_FILE)
VARIABLES l, ref
Say(id, clause) == PrintT("REJECT " \o ToString(id) \o " " \o clause)
If(cond, name) == IF cond THEN {} ELSE {name}
Failed == "FAILED"

NewRef(e) == CASE e.e = "doc"  -> << >>
               [] e.e = "solo" -> Append(ref, e.digest)          \* solo events come in sentence-id order 1, 2, ...
               [] OTHER -> ref
FailsSolo(e) ==
     If(e.sid = Len(ref) + 1, "MACHINERY.solo_events_out_of_order")
  \cup If(e.nlists = 1, "C11.one_result_list_per_sentence")
  \cup If(e.expect_fail => e.digest = Failed, "C11.unparseable_sentence_did_not_yield_placeholder")
FailsRun(e) ==
     If(~e.raised, "C11.batch_run_raised")
  \cup If(e.raised \/ Len(e.results) = Len(e.batch), "C11.one_result_list_per_sentence")
  \cup If(e.raised \/ Len(e.results) # Len(e.batch) \/ \A i \in DOMAIN e.batch : e.results[i] = ref[e.batch[i]],
          "C11.result_differs_from_solo_result")
  \cup If(e.raised \/ Len(e.results) # Len(e.batch) \/ \A i \in DOMAIN e.batch : (e.results[i] = Failed) => ref[e.batch[i]] = Failed,
          "C11.failure_of_another_sentence_leaked")
FailsShape(e) ==
     If(e.raised, "C11.shape_mismatch_not_rejected")
  \cup If(e.callbacks = 0, "C11.shape_mismatch_rejected_after_parsing_started")
FailsOk(e) == If(~e.raised, "C11.well_shaped_input_rejected")

Fails(e) == CASE e.e = "doc" -> {}
              [] e.e = "solo" -> FailsSolo(e)
              [] e.e = "run" -> FailsRun(e)
              [] e.e = "shape" -> FailsShape(e)
              [] e.e = "shape_ok" -> FailsOk(e)
              [] OTHER -> {"MACHINERY.unknown_event"}

Init == l = 1 /\ ref = << >>
Next == /\ l <= Len(Trace)
        /\ l' = l + 1
        /\ ref' = NewRef(Trace[l])
        /\ \A c \in Fails(Trace[l]) : Say(Trace[l].id, c)
Spec == Init /\ [][Next]_<<l, ref>>
Consumed == TLCGet("stats").diameter - 1 = Len(Trace)
=============================================================================
