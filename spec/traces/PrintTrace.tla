------------------------------ MODULE PrintTrace ------------------------------
(* Trace validation for C18: histories of renderings of one persistent result *)
(* object.  State: snap = the snapshot of the objects (projection of every     *)
(* tree, category and token) taken before the first rendering.                *)
EXTENDS Naturals, Sequences, FiniteSets, TLC, Json, IOUtils
Trace == ndJsonDeserialize(IOEnv.TRACE_FILE)
VARIABLES l, snap
Say(id, clause) == PrintT("REJECT " \o ToString(id) \o " " \o clause)
If(cond, name) == IF cond THEN {} ELSE {name}
(* each rendering is compared with the objects as they were just before it, so only the step that changes them is blamed *)
NewSnap(e) == IF e.e = "begin" THEN e.snap ELSE e.snap_after
FailsRender(e) ==
     If(e.snap_after = snap, "C18." \o e.fmt \o ".objects_changed_by_rendering")
  \cup If(e.fresh_raised \/ (~e.raised /\ e.out = e.fresh), "C18." \o e.fmt \o ".output_differs_from_fresh_copy")
Fails(e) == CASE e.e = "begin" -> {} [] e.e = "render" -> FailsRender(e) [] OTHER -> {"MACHINERY.unknown_event"}
Init == l = 1 /\ snap = <<>>
Next == /\ l <= Len(Trace) /\ l' = l + 1
        /\ snap' = NewSnap(Trace[l])
        /\ \A c \in Fails(Trace[l]) : Say(Trace[l].id, c)
Spec == Init /\ [][Next]_<<l, snap>>
Consumed == TLCGet("stats").diameter - 1 = Len(Trace)
=============================================================================
