----------------------------- MODULE RulesTrace -----------------------------
(* Trace validation for the `rules` family: C03 (GrammarEn), C04 (GrammarJa), *)
(* C14 (RulePurity: reproducible, pure, total; filters only remove; unary    *)
(* table lookup).  Events come from worker processes running the real       *)
(* apply_binary_rules / apply_unary_rules.                                   *)
EXTENDS GrammarEn, Json, IOUtils

Trace == ndJsonDeserialize(IOEnv.TRACE_FILE)
Aux   == JsonDeserialize(IOEnv.AUX_FILE)
VARIABLES l, memo

Say(id, clause) == PrintT("REJECT " \o ToString(id) \o " " \o clause)
If(cond, name) == IF cond THEN {} ELSE {name}
Range(s) == {s[i] : i \in DOMAIN s}
Pre(p, S) == {p \o w : w \in S}

J == INSTANCE GrammarJa

XNb == {UF("X"), UF("nb")}
SeenOf(name) == {<<ClearFeats(p[1], XNb), ClearFeats(p[2], XNb)>> : p \in Range(Aux.seen[name])}
SeenEn     == SeenOf("en")
SeenRebank == SeenOf("en_rebank")
SeenJa     == {<<p[1], p[2]>> : p \in Range(Aux.seen["ja"])}
Seen(name) == CASE name = "en" -> SeenEn [] name = "en_rebank" -> SeenRebank [] name = "ja" -> SeenJa
JaRoots == Range(Aux.ja_roots)
Table(e) == IF e.table = "inline" THEN e.tab ELSE Aux.unary[e.table]
HasVar(c) == \E f \in FeatSet(c) : IsVarFeat(f)

(* ---------------- bin: one application of the binary rules ---------------- *)
FailsBin(e) ==
     If(~e.raised, "C14.rule_application_raised")
  \cup If(e.xa = e.x /\ e.ya = e.y, "C14.arguments_changed")
  \cup (IF e.raised THEN {}
        ELSE IF e.lang = "en" THEN Pre("C03.", EnFails(e))
        ELSE Pre("C04.", J!JaFails(e, JaRoots)))

(* ---------------- un: one application of the unary rules ---------------- *)
Targets(tab, x) == SelectSeq(tab, LAMBDA row : row[1] = x)
FailsUn(e) ==
  LET tg == Targets(Table(e), e.x) IN
     If(~e.raised, "C14.rule_application_raised")
  \cup If(e.xa = e.x, "C14.arguments_changed")
  \cup If("tn0" \notin DOMAIN e \/ e.tn0 = e.tn1, "C14.arguments_changed")        \* the unary table is an argument too: a lookup must not grow it
  \cup If(e.raised \/ (Len(e.res) = Len(tg) /\ \A i \in DOMAIN tg : e.res[i].c = tg[i][2]), "C14.unary_not_exactly_configured_targets")
  \cup (IF e.raised \/ e.lang # "ja" THEN {} ELSE Pre("C04.", J!JaUnaryFails(e)))

(* ---------------- key / obs: the same application observed in many processes ---------------- *)
FailsObs(e) == If(~memo.set \/ memo.res = e.res, "C14.result_differs_between_calls_processes_or_hash_seeds")
NewMemo(e) == CASE e.e = "key" -> [set |-> FALSE, res |-> <<>>]
                [] e.e = "obs" /\ ~memo.set -> [set |-> TRUE, res |-> e.res]
                [] OTHER -> memo

(* ---------------- filt: with a set of seen rules the result is the full result or empty ---------------- *)
FailsFilt(e) ==
  LET key == IF e.lang = "en" THEN <<ClearFeats(e.x, XNb), ClearFeats(e.y, XNb)>> ELSE <<e.x, e.y>>
      \* an ad-hoc set (possibly empty) is carried by the event itself; otherwise one of the shipped sets is named
      member == IF e.set = "adhoc" THEN key \in {<<p[1], p[2]>> : p \in Range(e.members)} ELSE key \in Seen(e.set)
      decided == e.lang = "en" \/ ~(HasVar(e.x) \/ HasVar(e.y))
  IN   If(e.res = e.full \/ e.res = <<>>, "C14.filtered_result_neither_full_nor_empty")
  \cup If((decided /\ member) => e.res = e.full, "C14.seen_pair_filtered_out")
  \cup If((decided /\ ~member) => e.res = <<>>, "C14.unseen_pair_not_filtered")

(* ---------------- nbpair: English results do not depend on nb marks ---------------- *)
FailsNb(e) ==
     If(NbErase(e.x1) = NbErase(e.x2) /\ NbErase(e.y1) = NbErase(e.y2), "MACHINERY.nb_variants_not_variants")
  \cup If(e.res1 = e.res2, "C14.english_result_depends_on_nb")

Fails(e) == CASE e.e = "bin" -> FailsBin(e)
              [] e.e = "un" -> FailsUn(e)
              [] e.e = "key" -> {}
              [] e.e = "obs" -> FailsObs(e)
              [] e.e = "filt" -> FailsFilt(e)
              [] e.e = "nbpair" -> FailsNb(e)
              [] OTHER -> {"MACHINERY.unknown_event"}

Init == l = 1 /\ memo = [set |-> FALSE, res |-> <<>>]
Next == /\ l <= Len(Trace)
        /\ l' = l + 1
        /\ memo' = NewMemo(Trace[l])
        /\ \A c \in Fails(Trace[l]) : Say(Trace[l].id, c)
Spec == Init /\ [][Next]_<<l, memo>>
Consumed == TLCGet("stats").diameter - 1 = Len(Trace)
=============================================================================
