---------------------------- MODULE CatDictTrace ----------------------------
(* Trace validation for C17: real apply_category_filters calls judged by     *)
(* CatDict!Filtered; shipped category strings judged by CatReaderOps!Read.  *)
EXTENDS CatReaderOps, Json, IOUtils

Trace == ndJsonDeserialize(IOEnv.TRACE_FILE)
Aux   == JsonDeserialize(IOEnv.AUX_FILE)
VARIABLE l
Say(id, clause) == PrintT("REJECT " \o ToString(id) \o " " \o clause)
If(cond, name) == IF cond THEN {} ELSE {name}
Range(s) == {s[i] : i \in DOMAIN s}

NEG == -999999
(* the value written for excluded categories: the default large negative value, or the one the caller passed (x8) *)
NegOf(e) == IF "neg" \in DOMAIN e THEN e.neg ELSE NEG
Filtered(words, tagIn, dict, ncat, neg) ==
  [s \in DOMAIN words |-> [i \in DOMAIN words[s] |-> [c \in 1..ncat |->
      IF words[s][i] \in DOMAIN dict /\ c \notin Range(dict[words[s][i]]) THEN neg ELSE tagIn[s][i][c]]]]

FailsFilter(e) ==
     If(~e.raised, "C17.filter_raised")
  \cup If(e.raised \/ e.tag_out = Filtered(e.words, e.tag_in, e.dict, e.ncat, NegOf(e)), "C17.listed_kept_others_negative_rest_untouched")
  \cup If(e.raised \/ e.dep_out = e.dep_in, "C17.dependency_scores_changed")
  \cup If(e.raised \/ e.words_out = e.words, "C17.tokens_or_order_changed")

(* inventory of the configuration the dictionary belongs to, as values *)
TargetVals == {Read(Aux.targets_en[i]).out : i \in DOMAIN Aux.targets_en}
FailsShipped(e) ==
  LET rd == Read(e.toks) IN
     If(rd.st = "ok", "C17.shipped_category_string_malformed")
  \cup If(e.ok, "C17.shipped_category_string_rejected_by_parser")
  \cup If((rd.st = "ok" /\ e.ok) => (e.val = rd.out /\ e.ptoks = Show(rd.out)), "C17.shipped_category_string_does_not_round_trip")
  \cup If((e.isdict /\ rd.st = "ok") => rd.out \in TargetVals, "C17.dictionary_category_not_in_inventory")
FailsApplicable(e) == If(~e.raised, "C17.shipped_dictionary_not_applicable_to_inventory")

Fails(e) == CASE e.e = "filter" -> FailsFilter(e)
              [] e.e = "shipped" -> FailsShipped(e)
              [] e.e = "applicable" -> FailsApplicable(e)
              [] OTHER -> {"MACHINERY.unknown_event"}
Init == l = 1
Next == /\ l <= Len(Trace)
        /\ l' = l + 1
        /\ \A c \in Fails(Trace[l]) : Say(Trace[l].id, c)
Spec == Init /\ [][Next]_l
Consumed == TLCGet("stats").diameter - 1 = Len(Trace)
=============================================================================
