------------------------------ MODULE DriverTrace ------------------------------
(* Trace validation of the real command-line driver against Driver.tla.  The    *)
(* recording holds one event per stage call the real main makes:                 *)
(*   start (the vector: lines, source, input format, dictionary switch)          *)
(*   tag   (supertagger.predict_doc: the sentences of the round, by line number) *)
(*   filter (apply_category_filters was called)                                  *)
(*   parse (depccg.parsing.run returned), print (print_ wrote records), end      *)
(* An event stands for the Driver actions up to and including its stage          *)
(* (tag = Read . Check . Tokenize . Tag, parse = Filter . Parse, end = the read  *)
(* that ended the loop): the unlogged steps are composed into the disjunct, the  *)
(* variables take the values Driver's actions give them.                         *)
EXTENDS Driver, IOUtils
Trace == ndJsonDeserialize(IOEnv.TRACE_FILE)
VARIABLE l
Say(id, clause) == PrintT("REJECT " \o ToString(id) \o " " \o clause)
If(cond, name) == IF cond THEN {} ELSE {"DRIVER." \o name}

ReadB == IF source = "keyboard" THEN (IF unread = <<>> THEN <<>> ELSE NonBlank(<<Head(unread)>>)) ELSE NonBlank(unread)
ReadRest == IF source = "keyboard" THEN (IF unread = <<>> THEN <<>> ELSE Tail(unread)) ELSE <<>>
Gaps(b) == Cardinality({i \in DOMAIN b : lines[b[i]] = "gap"})
Bad(b) == Cardinality({i \in DOMAIN b : lines[b[i]] \in BadTagged})
Lays(b) == [i \in DOMAIN b |-> LayoutOf(lines[b[i]], infmt)]
Expected == IF source = "keyboard" THEN UpToBlank(All) ELSE NonBlank(All)

Fails(e) ==
  CASE e.e = "start" -> {}
    [] e.e = "tag" ->    If(pc = "read", "tag_out_of_order")
                    \cup If(pc # "read" \/ ReadB # <<>>, "tagged_an_empty_batch")
                    \cup If(pc # "read" \/ e.ix = ReadB, "batch_is_not_the_nonblank_lines_in_order")
                    \cup If(pc # "read" \/ ~(infmt = "tagged" /\ Bad(ReadB) > 0), "tagged_line_with_a_malformed_item_did_not_fail")
                    \cup If(pc # "read" \/ e.empty_words = Gaps(ReadB), "words_are_not_the_items_between_single_blanks")
    [] e.e = "filter" -> {"DRIVER.dictionary_applied_although_the_driver_never_loads_it"}
    [] e.e = "parse" ->  If(pc = "filter", "parse_out_of_order")
                    \cup If(pc # "filter" \/ e.ix = batch, "parsed_sentences_are_not_the_batch_in_order")
                    \cup If(pc # "filter" \/ e.nres = Len(batch), "not_one_result_list_per_sentence")
    [] e.e = "print" ->  If(pc = "print", "print_out_of_order")
                    \cup If(pc # "print" \/ e.ix = batch, "printed_records_are_not_the_batch_in_order")
                    \cup If(pc # "print" \/ e.headers = Len(batch), "not_one_header_per_record")
                    \cup If(pc # "print" \/ e.lay = Lays(batch), "printed_token_attributes_are_not_those_of_the_input_line")
    [] e.e = "end" ->
         (CASE e.kind = "done" ->    If(pc = "done" \/ (pc = "read" /\ ReadB = <<>> /\ (source # "keyboard" \/ unread # <<>>)), "ended_although_input_remained")
                                \cup If(out = Expected, "output_is_not_one_record_per_line_in_order")
            [] e.kind = "eof_error" -> If(pc = "read" /\ source = "keyboard" /\ unread = <<>>, "end_of_input_error_out_of_place")
            [] e.kind = "assertion_error" -> If(pc = "read" /\ infmt = "tagged" /\ Bad(ReadB) > 0, "assertion_error_out_of_place")
            [] OTHER -> {"DRIVER.unexpected_exception_or_exit"})
    [] OTHER -> {"MACHINERY.unknown_event"}

Ok(e) == Fails(e) = {}
Init0 == /\ l = 1 /\ lines = <<>> /\ source = "file" /\ infmt = "raw" /\ dictoff = FALSE /\ pc = "setup" /\ unread = <<>> /\ batch = <<>>
         /\ cats = "unset" /\ dict = "unset" /\ out = <<>> /\ iter = 0 /\ lay = <<>>
Step(e) ==
  CASE e.e = "start" -> /\ lines' = e.lines /\ source' = e.source /\ infmt' = e.infmt /\ dictoff' = e.dictoff
                        /\ pc' = "read" /\ unread' = [i \in DOMAIN e.lines |-> i] /\ batch' = <<>> /\ cats' = "unset" /\ dict' = "none"
                        /\ out' = <<>> /\ iter' = 0 /\ lay' = <<>>                                                   \* Init . Setup
    [] e.e = "tag" /\ pc = "read" -> /\ batch' = ReadB /\ unread' = ReadRest /\ pc' = "filter" /\ cats' = "parsed" /\ iter' = iter + 1
                                     /\ UNCHANGED <<lines, source, infmt, dictoff, dict, out, lay>>     \* Read . Check . Tokenize . Tag
    [] e.e = "parse" /\ pc = "filter" -> pc' = "print" /\ UNCHANGED <<lines, source, infmt, dictoff, unread, batch, cats, dict, out, iter, lay>>
    [] e.e = "print" /\ pc = "print" -> /\ out' = out \o batch /\ lay' = lay \o Lays(batch) /\ pc' = (IF source = "keyboard" THEN "read" ELSE "done")
                                        /\ UNCHANGED <<lines, source, infmt, dictoff, unread, batch, cats, dict, iter>>
    [] e.e = "end" -> pc' = (IF e.kind \in {"done", "eof_error", "assertion_error"} THEN e.kind ELSE "done")
                      /\ UNCHANGED <<lines, source, infmt, dictoff, unread, batch, cats, dict, out, iter, lay>>
    [] OTHER -> UNCHANGED vars
TNext == /\ l <= Len(Trace) /\ l' = l + 1
         /\ Step(Trace[l])
         /\ \A c \in Fails(Trace[l]) : Say(Trace[l].id, c)
TSpec == Init0 /\ [][TNext]_<<vars, l>>
Consumed == TLCGet("stats").diameter - 1 = Len(Trace)
=============================================================================
