SPECIFICATION TrSpec
CONSTANTS
  G <- TraceG
  TagScores = {0}
  DepScores = {0}
  KBestN <- TraceK
  MaxStep <- TraceMax
  EstSign = 1
  Ties = "all"
INVARIANT TrMonotone
INVARIANT TrParentNotBetter
POSTCONDITION Consumed
CHECK_DEADLOCK FALSE
