----------------------------- MODULE ChunkArith -----------------------------
(* The arithmetic behind depccg/parsing.py:_chunks (Batch!Split), for every   *)
(* batch length n >= 1 and every process count p >= 1 - not only the bounded   *)
(* instances TLC enumerates: with slices of size sz = ceil(n / p),             *)
(*   - there are ceil(n / sz) slices, at most p of them and at least one,      *)
(*   - all but the last are full and the last one is not empty,                *)
(* so the slices are non-empty, contiguous, cover positions 1..n exactly once  *)
(* and never outnumber the worker processes.                                   *)
EXTENDS Integers, TLAPS
Ceil(a, b) == (a + b - 1) \div b

LEMMA Mono == \A a, b, c \in Nat : a >= b => a * c >= b * c
  OBVIOUS

THEOREM ChunkCount ==
  ASSUME NEW n \in Nat, NEW p \in Nat, n >= 1, p >= 1
  PROVE  LET sz == Ceil(n, p)  k == Ceil(n, sz) IN
         /\ sz >= 1 /\ k >= 1 /\ k <= p
         /\ (k - 1) * sz < n          \* the last slice starts inside the batch: it is not empty
         /\ n <= k * sz               \* the slices reach the end of the batch
<1>1. Ceil(n, p) >= 1 /\ Ceil(n, p) * p >= n /\ (Ceil(n, p) - 1) * p < n
  BY DEF Ceil
<1>2. ASSUME NEW sz \in Nat, sz >= 1
      PROVE Ceil(n, sz) >= 1 /\ Ceil(n, sz) * sz >= n /\ (Ceil(n, sz) - 1) * sz < n
  BY <1>2 DEF Ceil
<1>3. Ceil(n, p) \in Nat
  BY DEF Ceil
<1>4. Ceil(n, Ceil(n, p)) <= p
  <2> DEFINE s == Ceil(n, p)
  <2> DEFINE k == Ceil(n, s)
  <2>1. s \in Nat /\ s >= 1 /\ s * p >= n BY <1>1, <1>3
  <2>2. k \in Nat /\ k >= 1 /\ (k - 1) * s < n BY <1>1, <1>2, <1>3 DEF Ceil
  <2> HIDE DEF s, k
  <2>3. SUFFICES ASSUME k >= p + 1 PROVE FALSE
    BY <2>2 DEF k, s
  <2>4. k - 1 \in Nat /\ k - 1 >= p BY <2>2, <2>3
  <2>5. (k - 1) * s >= p * s BY <2>1, <2>4, Mono
  <2>6. p * s = s * p BY <2>1
  <2> QED BY <2>1, <2>2, <2>5, <2>6
<1> QED BY <1>1, <1>2, <1>3, <1>4
=============================================================================
