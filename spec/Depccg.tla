-------------------------------- MODULE Depccg --------------------------------
(* The pipeline as one state machine (composition of the stage specifications):  *)
(*   Input --Filter?--> Filtered --Parse--> Parsed --Render(f)--> Rendered       *)
(*         --ReadBack(f)--> Read                                                  *)
(* Data are abstract: a sentence is an id; Deriv(s, mask) is "the" best           *)
(* derivation of sentence s under tag mask `mask` (a function fixed in Init),     *)
(* NoParse when none exists.  What flows between stages is what the stage         *)
(* specifications say: the filter only masks tags of dictionary words (CatDict),  *)
(* the parser returns a derivation over unmasked tags or the placeholder (AStar,  *)
(* Batch: one result list per sentence, in order), every format denotes the       *)
(* derivation it was given (Formats), a reader returns what the text denotes.     *)
(* End-to-end invariants follow from the composition; TLC also emits every        *)
(* complete behaviour as a pipeline configuration to replay on the real code.     *)
EXTENDS Naturals, Sequences, FiniteSets, TLC, Json
CONSTANTS Sents, Masks, Formats, Readable, MaxBest
VARIABLES stage, useDict, mask, nbest, results, fmt, text, readback, deriv
vars == <<stage, useDict, mask, nbest, results, fmt, text, readback, deriv>>
NoParse == "FAILED"
Init == /\ stage = "input" /\ useDict \in BOOLEAN /\ mask = "none" /\ nbest \in 1..MaxBest
        /\ results = <<>> /\ fmt = "none" /\ text = <<>> /\ readback = <<>>
        /\ deriv \in [Sents \X (Masks \cup {"none"}) -> {"d1", "d2", NoParse}]
Filter == /\ stage = "input" /\ useDict /\ stage' = "filtered" /\ mask' \in Masks
          /\ UNCHANGED <<useDict, nbest, results, fmt, text, readback, deriv>>
SentSeq == CHOOSE q \in [1..Cardinality(Sents) -> Sents] : \A i, j \in DOMAIN q : i # j => q[i] # q[j]
Parse == /\ stage \in (IF useDict THEN {"filtered"} ELSE {"input"})
         /\ stage' = "parsed"
         /\ results' = [i \in DOMAIN SentSeq |-> deriv[<<SentSeq[i], mask>>]]       \* one result per sentence, in order
         /\ UNCHANGED <<useDict, mask, nbest, fmt, text, readback, deriv>>
Render(f) == /\ stage = "parsed" /\ stage' = "rendered" /\ fmt' = f
             /\ text' = [i \in DOMAIN results |-> <<f, results[i]>>]                   \* the text denotes exactly the results
             /\ UNCHANGED <<useDict, mask, nbest, results, readback, deriv>>
ReadBack == /\ stage = "rendered" /\ fmt \in Readable /\ stage' = "read"
            /\ readback' = [i \in DOMAIN text |-> text[i][2]]
            /\ UNCHANGED <<useDict, mask, nbest, results, fmt, text, deriv>>
Next == Filter \/ Parse \/ (\E f \in Formats : Render(f)) \/ ReadBack
Spec == Init /\ [][Next]_vars

Aligned == stage \in {"parsed", "rendered", "read"} => Len(results) = Cardinality(Sents)
FilterOnlyWithDict == mask # "none" => useDict
RenderedDenotesResults == stage \in {"rendered", "read"} => \A i \in DOMAIN text : text[i] = <<fmt, results[i]>>
RoundTrip == stage = "read" => readback = results
FailureIsOwn == stage \in {"parsed", "rendered", "read"} =>
                  \A i \in DOMAIN results : (results[i] = NoParse) <=> (deriv[<<SentSeq[i], mask>>] = NoParse)
Complete == stage = "read" \/ (stage = "rendered" /\ fmt \notin Readable)
Emit == Complete => PrintT("VEC " \o ToJson([dict |-> useDict, nbest |-> nbest, fmt |-> fmt, read |-> stage = "read",
                                              fails |-> [i \in DOMAIN results |-> results[i] = NoParse]]))
=============================================================================
