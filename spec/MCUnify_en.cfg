SPECIFICATION Spec
CONSTANT Sel = "en"
INVARIANT VerdictTotal
INVARIANT OkBindsOccurrences
INVARIANT InstancesMatch
INVARIANT NbIrrelevant
INVARIANT Emit
CHECK_DEADLOCK FALSE
