------------------------------- MODULE Formats -------------------------------
(* C07 (and the decoding halves of C08 C15 C20): what each output format     *)
(* must carry of a derivation.  A derivation node D is the projection of a   *)
(* real Tree: [k: "L"|"U"|"B", cat (value), lab, sym, hl, tok: <<[k,v,cp]>>, *)
(* kids]; a document node X is what the format's lexer delivers:             *)
(* [k: "L"|"T", cat (text), cat2, lab, sym, hl (-1 none | 1 left | 0 right), *)
(*  n, wordcp, attrs: <<[k,v,cp]>>, b, e, id, kids].                         *)
(* NodeFails(fmt, D, X) is the set of carried fields on which X does not     *)
(* denote D.  Spellings of words and categories are specified here, from the *)
(* statements, not taken from the encoders.                                  *)
EXTENDS Cat

RECURSIVE JoinToks(_)
JoinToks(ts) == IF ts = <<>> THEN "" ELSE Head(ts).s \o JoinToks(Tail(ts))
CatText(c) == JoinToks(Show(c))

(* Jigg spelling: unary features as [f=true], bracketing as in the canonical text *)
RECURSIVE JiggText(_)
JiggOperand(c) == IF c.k = "F" THEN "(" \o JiggText(c) \o ")" ELSE JiggText(c)
JiggText(c) == IF c.k = "A"
               THEN (IF c.f.t = "U" THEN (IF c.f.v = "" THEN c.b ELSE c.b \o "[" \o c.f.v \o "=true]")
                     ELSE c.b \o "[" \o FeatText(c.f) \o "]")
               ELSE JiggOperand(c.l) \o c.s \o JiggOperand(c.r)

(* ---------------- token attributes ---------------- *)
AttrSel(tok, key) == SelectSeq(tok, LAMBDA a : a.k = key)
HasAttr(tok, key) == Len(AttrSel(tok, key)) > 0
AttrV(tok, key, dflt) == IF HasAttr(tok, key) THEN AttrSel(tok, key)[1].v ELSE dflt
AttrCP(tok, key) == IF HasAttr(tok, key) THEN AttrSel(tok, key)[1].cp ELSE <<>>
Without(tok, keys) == SelectSeq(tok, LAMBDA a : a.k \notin keys)
KVs(tok) == [i \in DOMAIN tok |-> <<tok[i].k, tok[i].v>>]

(* ---------------- word spellings (code points) ---------------- *)
LRB == <<45, 76, 82, 66, 45>>   RRB == <<45, 82, 82, 66, 45>>
LCB == <<45, 76, 67, 66, 45>>   RCB == <<45, 82, 67, 66, 45>>
LSB == <<45, 76, 83, 66, 45>>   RSB == <<45, 82, 83, 66, 45>>
LAB == <<45, 76, 65, 66, 45>>   RAB == <<45, 82, 65, 66, 45>>
RECURSIVE Angles(_)
Angles(w) == IF w = <<>> THEN <<>>
             ELSE (CASE Head(w) = 60 -> LAB [] Head(w) = 62 -> RAB [] OTHER -> <<Head(w)>>) \o Angles(Tail(w))
(* auto / auto_extended / conll: a word that is exactly one bracket character becomes its escape;
   every angle bracket inside a word becomes -LAB- / -RAB- *)
Denorm(w) == CASE w = <<40>> -> LRB [] w = <<41>> -> RRB [] w = <<123>> -> LCB [] w = <<125>> -> RCB
               [] w = <<91>> -> LSB [] w = <<93>> -> RSB [] OTHER -> Angles(w)
(* ja: the inverse bracket map *)
Norm(w) == CASE w = LRB -> <<40>> [] w = RRB -> <<41>> [] w = LCB -> <<123>> [] w = RCB -> <<125>>
             [] w = LSB -> <<91>> [] w = RSB -> <<93>> [] OTHER -> w
(* ptb: only a word that is exactly one bracket character is escaped (an unescaped bracket would make the S-expression ambiguous) *)
BracketEsc(w) == CASE w = <<40>> -> LRB [] w = <<41>> -> RRB [] w = <<123>> -> LCB [] w = <<125>> -> RCB
                   [] w = <<91>> -> LSB [] w = <<93>> -> RSB [] OTHER -> w
WordSpell(f, w) == CASE f \in {"auto", "auto_extended", "conll", "conll_frag"} -> Denorm(w)
                     [] f = "ja" -> Norm(w)
                     [] f = "ptb" -> BracketEsc(w)
                     [] OTHER -> w
CatSpell(f, c) == IF f = "jigg_xml" THEN JiggText(c) ELSE CatText(c)

(* ---------------- joined part-of-speech fields of the Japanese format ---------------- *)
RECURSIVE JoinDash(_)
JoinDash(s) == IF Len(s) = 0 THEN "_" ELSE IF Len(s) = 1 THEN s[1] ELSE s[1] \o "-" \o JoinDash(Tail(s))
NonStar(tok, keys) == LET vals == [i \in DOMAIN keys |-> AttrV(tok, keys[i], "*")]
                      IN SelectSeq(vals, LAMBDA v : v # "*")
JaPos(tok)  == JoinDash(NonStar(tok, <<"pos", "pos1", "pos2", "pos3">>))
JaInfl(tok) == JoinDash(NonStar(tok, <<"inflectionForm", "inflectionType">>))

XAttr(x, key) == AttrV(x.attrs, key, "<absent>")

LeafFails(f, d, x) ==
  LET w == AttrCP(d.tok, "word") IN
  (IF x.wordcp = WordSpell(f, w) THEN {} ELSE {"words"})
  \cup
  (CASE f \in {"auto", "conll_frag"} ->      \* a token without a POS attribute: AUTO writes POS, the CoNLL fragments write _
          (LET dflt == IF f = "auto" THEN "POS" ELSE "_" IN
           IF XAttr(x, "pos") = AttrV(d.tok, "pos", dflt) /\ XAttr(x, "pos2") = AttrV(d.tok, "pos", dflt) THEN {} ELSE {"attrs"})
          \cup (IF x.cat2 = x.cat THEN {} ELSE {"cats"})
     [] f = "auto_extended" ->
          (IF /\ XAttr(x, "lemma") = AttrV(d.tok, "lemma", "XX") /\ XAttr(x, "pos") = AttrV(d.tok, "pos", "XX")
              /\ XAttr(x, "entity") = AttrV(d.tok, "entity", "XX") /\ XAttr(x, "chunk") = AttrV(d.tok, "chunk", "XX") THEN {} ELSE {"attrs"})
          \cup (IF x.cat2 = x.cat THEN {} ELSE {"cats"})
     [] f \in {"xml", "json"} ->
          (IF KVs(x.attrs) = KVs(Without(d.tok, {"word"})) /\ x.id = "" THEN {} ELSE {"attrs"})
     [] f = "ja" ->
          (IF XAttr(x, "word2") = AttrV(x.attrs, "word2", "") /\ AttrCP(x.attrs, "word2") = x.wordcp
              /\ XAttr(x, "pos") = JaPos(d.tok) /\ XAttr(x, "infl") = JaInfl(d.tok) THEN {} ELSE {"attrs"})
     [] f = "html" -> (IF x.lab = "lex" THEN {} ELSE {"labels"})
     [] OTHER -> {})

InnerFails(f, d, x) ==
  (IF f \in {"auto", "auto_extended", "conll_frag"}
   THEN (IF x.hl = (IF d.hl THEN 1 ELSE 0) THEN {} ELSE {"heads"}) \cup (IF x.n = Len(d.kids) THEN {} ELSE {"shape"})
   ELSE {})
  \cup (IF f \in {"auto_extended", "xml", "json", "html"} THEN (IF x.lab = d.lab THEN {} ELSE {"labels"}) ELSE {})
  \cup (IF f = "ja" THEN (IF x.sym = d.sym THEN {} ELSE {"labels"}) ELSE {})

RECURSIVE NodeFails(_, _, _)
NodeFails(f, d, x) ==
  IF ~((d.k = "L") = (x.k = "L") /\ Len(d.kids) = Len(x.kids)) THEN {"shape"}
  ELSE (IF x.cat = CatSpell(f, d.cat) THEN {} ELSE {"cats"})
    \cup (IF d.k = "L" THEN LeafFails(f, d, x) ELSE InnerFails(f, d, x))
    \cup UNION {NodeFails(f, d.kids[i], x.kids[i]) : i \in DOMAIN d.kids}

(* C&C XML: start offsets are the leaf positions 0, 1, ... and every leaf spans one token *)
RECURSIVE LeafSeq(_)
LeafSeq(x) == IF x.k = "L" THEN <<x>> ELSE IF Len(x.kids) = 0 THEN <<>>
              ELSE LET RECURSIVE Cat(_) Cat(i) == IF i > Len(x.kids) THEN <<>> ELSE LeafSeq(x.kids[i]) \o Cat(i + 1) IN Cat(1)
XmlOffsetsOK(x) == LET ls == LeafSeq(x) IN \A i \in DOMAIN ls : ls[i].b = i - 1 /\ ls[i].n = 1

(* ---------------- dependencies implied by the head flags (CoNLL head column) ---------------- *)
RECURSIVE Walk(_, _)
Walk(d, off) ==
  IF d.k = "L" THEN [n |-> 1, h |-> off + 1, dep |-> <<0>>]
  ELSE IF d.k = "U" THEN Walk(d.kids[1], off)
  ELSE LET a == Walk(d.kids[1], off)
           b == Walk(d.kids[2], off + a.n)
           h == IF d.hl THEN a.h ELSE b.h
           c == IF d.hl THEN b.h ELSE a.h
           all == a.dep \o b.dep
       IN [n |-> a.n + b.n, h |-> h, dep |-> [i \in DOMAIN all |-> IF i = c - off THEN h ELSE all[i]]]
Deps(d) == Walk(d, 0).dep
(* the training-data creator (depccg/tools/data.py) writes "head-first" dependencies: the head of every binary node is its left child *)
RECURSIVE HeadLeft(_)
HeadLeft(d) == IF d.k = "L" THEN d ELSE [d EXCEPT !.hl = TRUE, !.kids = [i \in DOMAIN d.kids |-> HeadLeft(d.kids[i])]]
(* one sample of convert_auto_to_json: the words (bracket escapes undone) joined by blanks, the leaf categories, the dependencies *)
TrainFails(d, s) ==
  LET ls == LeafSeq(d) IN
  IF Len(s.words) # Len(ls) \/ Len(s.cats) # Len(ls) \/ Len(s.deps) # Len(ls) THEN {"shape"}
  ELSE (IF \A i \in DOMAIN ls : s.words[i] = Norm(AttrCP(ls[i].tok, "word")) THEN {} ELSE {"words"})
       \cup (IF \A i \in DOMAIN ls : s.cats[i] = CatText(ls[i].cat) THEN {} ELSE {"cats"})
       \cup (IF s.deps = Deps(HeadLeft(d)) THEN {} ELSE {"deps"})
DLeaves(d) == LeafSeq(d)

ConllFails(d, rows) ==
  LET ls == DLeaves(d)  dp == Deps(d) IN
  IF Len(rows) # Len(ls) THEN {"shape"}
  ELSE (IF \A i \in DOMAIN rows : rows[i].id = i THEN {} ELSE {"numbering"})
    \cup (IF \A i \in DOMAIN rows : rows[i].wordcp = Denorm(AttrCP(ls[i].tok, "word")) THEN {} ELSE {"words"})
    \cup (IF \A i \in DOMAIN rows : rows[i].cat = CatText(ls[i].cat) THEN {} ELSE {"cats"})
    \cup (IF \A i \in DOMAIN rows : /\ rows[i].lemma = AttrV(ls[i].tok, "lemma", "_") /\ rows[i].pos = AttrV(ls[i].tok, "pos", "_")
                                    /\ rows[i].pos2 = rows[i].pos THEN {} ELSE {"attrs"})
    \cup (IF \A i \in DOMAIN rows : rows[i].head = dp[i] THEN {} ELSE {"conll_heads"})

(* ---------------- deriv: leaf column blocks + post-order rule lines => tree (interval-containment stack) ---------------- *)
Max2(a, b) == IF a > b THEN a ELSE b
(* block i: start column and width 2 + max(len cat, len word); returns sequence of [a, b) *)
RECURSIVE Blocks(_, _, _, _)
Blocks(cats, words, i, start) ==
  IF i > Len(cats) THEN <<>>
  ELSE LET wdt == 2 + Max2(Len(cats[i].t), Len(words[i].cp))
       IN <<[a |-> start, b |-> start + wdt]>> \o Blocks(cats, words, i + 1, start + wdt)
(* a generic tree rebuilt from the lines: nodes [k, cat, sym, wordcp, a, b, kids] *)
RECURSIVE DerivRun(_, _, _, _, _)
DerivRun(steps, si, leaves, li, stack) ==
  IF si > Len(steps) THEN [ok |-> li > Len(leaves), stack |-> stack]
  ELSE LET st == steps[si] IN
       IF li <= Len(leaves) /\ leaves[li].a < st.b
       THEN DerivRun(steps, si, leaves, li + 1, Append(stack, leaves[li]))          \* shift the next leaf
       ELSE LET inside == {j \in DOMAIN stack : stack[j].a >= st.a /\ stack[j].b <= st.b}
                nk == Cardinality(inside)
                first == Len(stack) - nk + 1
            IN IF nk \notin {1, 2} \/ inside # (first..Len(stack)) THEN [ok |-> FALSE, stack |-> stack]
               ELSE DerivRun(steps, si + 1, leaves, li,
                             Append(SubSeq(stack, 1, first - 1),
                                    [k |-> "T", cat |-> st.cat, sym |-> st.sym, wordcp |-> <<>>, a |-> st.a, b |-> st.b,
                                     kids |-> SubSeq(stack, first, Len(stack))]))
RECURSIVE DerivEq(_, _)
DerivEq(d, x) ==
  IF ~((d.k = "L") = (x.k = "L") /\ Len(d.kids) = Len(x.kids)) THEN {"shape"}
  ELSE (IF x.cat = CatText(d.cat) THEN {} ELSE {"cats"})
    \cup (IF d.k = "L" THEN (IF x.wordcp = AttrCP(d.tok, "word") THEN {} ELSE {"words"})
          ELSE (IF x.sym = d.sym THEN {} ELSE {"labels"}))
    \cup UNION {DerivEq(d.kids[i], x.kids[i]) : i \in DOMAIN d.kids}
DerivFails(d, rec) ==
  IF Len(rec.cats) # Len(rec.words) THEN {"shape"}
  ELSE LET bl == Blocks(rec.cats, rec.words, 1, 0)
           leaves == [i \in DOMAIN bl |-> [k |-> "L", cat |-> rec.cats[i].t, sym |-> "", wordcp |-> rec.words[i].cp,
                                           a |-> bl[i].a, b |-> bl[i].b, kids |-> <<>>]]
           run == DerivRun(rec.steps, 1, leaves, 1, <<>>)
           layout == \A i \in DOMAIN bl :
                        /\ rec.cats[i].col = bl[i].a + ((bl[i].b - bl[i].a - Len(rec.cats[i].t)) \div 2)
                        /\ rec.words[i].col = bl[i].a + ((bl[i].b - bl[i].a - Len(rec.words[i].cp)) \div 2)
       IN IF Len(rec.steps) = 0
          THEN (IF Len(leaves) = 1 THEN DerivEq(d, leaves[1]) ELSE {"shape"})
          ELSE IF ~run.ok \/ Len(run.stack) # 1 THEN {"shape"}
          ELSE DerivEq(d, run.stack[1]) \cup (IF layout THEN {} ELSE {"offsets"})

(* ---------------- Jigg XML: a sentence is self-contained (C15) and denotes the derivation (C07) ---------------- *)
RangeOf(q) == {q[i] : i \in DOMAIN q}
SpanIds(spans) == [i \in DOMAIN spans |-> spans[i].id]
Unique(q) == \A i, j \in DOMAIN q : i # j => q[i] # q[j]
HasSpan(spans, id) == \E i \in DOMAIN spans : spans[i].id = id
SpanOf(spans, id) == spans[CHOOSE i \in DOMAIN spans : spans[i].id = id]
HasTok(toks, id) == \E i \in DOMAIN toks : toks[i].id = id
TokOf(toks, id) == toks[CHOOSE i \in DOMAIN toks : toks[i].id = id]
(* every reference resolves, ids are unique, exactly one span is marked as root and it is the ccg's root *)
JiggIntegrity(ccg, toks) ==
  LET sp == ccg.spans IN
     (IF Unique(SpanIds(sp)) THEN {} ELSE {"span_ids_not_unique"})
  \cup (IF HasSpan(sp, ccg.root) THEN {} ELSE {"root_reference_dangling"})
  \cup (IF \A i \in DOMAIN sp : \A j \in DOMAIN sp[i].child : HasSpan(sp, sp[i].child[j]) THEN {} ELSE {"child_reference_dangling"})
  \cup (IF \A i \in DOMAIN sp : sp[i].terminal # "" => HasTok(toks, sp[i].terminal) THEN {} ELSE {"terminal_reference_dangling"})
  \cup (IF \A i \in DOMAIN sp : (sp[i].terminal # "") # (Len(sp[i].child) > 0) THEN {} ELSE {"span_neither_terminal_nor_inner"})
  \cup (IF Cardinality({i \in DOMAIN sp : sp[i].root = "true"}) = 1 /\ (HasSpan(sp, ccg.root) => SpanOf(sp, ccg.root).root = "true")
        THEN {} ELSE {"not_exactly_one_root"})
(* reference resolver: the tree a span denotes; fuel bounds the recursion on malformed (cyclic) input *)
RECURSIVE JBuild(_, _, _)
JBuild(sp, id, fuel) ==
  IF fuel = 0 \/ ~HasSpan(sp, id) THEN [ok |-> FALSE, k |-> "L", cat |-> "", rule |-> "", hasrule |-> FALSE, b |-> 0, e |-> 0, term |-> "", kids |-> <<>>]
  ELSE LET s == SpanOf(sp, id)
           ks == [j \in DOMAIN s.child |-> JBuild(sp, s.child[j], fuel - 1)]
       IN [ok |-> \A j \in DOMAIN ks : ks[j].ok, k |-> IF s.terminal # "" THEN "L" ELSE "T", cat |-> s.category, rule |-> s.rule,
           hasrule |-> s.hasrule, b |-> s.begin, e |-> s.end, term |-> s.terminal, kids |-> ks]
(* offsets tile the sentence and nest along the tree *)
RECURSIVE JTiles(_)
JTiles(x) == IF x.k = "L" THEN x.e = x.b + 1
             ELSE /\ Len(x.kids) \in {1, 2}
                  /\ x.b = x.kids[1].b /\ x.e = x.kids[Len(x.kids)].e
                  /\ (Len(x.kids) = 2 => x.kids[1].e = x.kids[2].b)
                  /\ \A j \in DOMAIN x.kids : JTiles(x.kids[j])
(* token attributes as the Jigg layout names them: word -> surf, lemma -> base *)
JiggAttrName(k) == CASE k = "word" -> "surf" [] k = "lemma" -> "base" [] OTHER -> k
(* the renamed attribute replaces one the token already carries under the target name: the surface form of a Jigg token *)
(* is the word of the derivation, its base the lemma (a token's own differing "surf"/"base" annotation is not carried) *)
JiggOverridden(tok, k) == \/ k = "surf" /\ \E j \in DOMAIN tok : tok[j].k = "word"
                          \/ k = "base" /\ \E j \in DOMAIN tok : tok[j].k = "lemma"
JiggTokPairs(tok) == {<<JiggAttrName(tok[i].k), tok[i].v>> : i \in {j \in DOMAIN tok : ~JiggOverridden(tok, tok[j].k)}}
PairsOf(attrs) == {<<attrs[i].k, attrs[i].v>> : i \in DOMAIN attrs}
RECURSIVE JEq(_, _, _, _, _)
JEq(d, x, toks, usesym, off) ==
  IF ~((d.k = "L") = (x.k = "L") /\ Len(d.kids) = Len(x.kids)) THEN {"shape"}
  ELSE (IF x.cat = JiggText(d.cat) THEN {} ELSE {"cats"})
    \cup (IF d.k = "L"
          THEN (IF HasTok(toks, x.term) /\ AttrCP(TokOf(toks, x.term).attrs, "surf") = AttrCP(d.tok, "word") /\ TokOf(toks, x.term).start = off
                   /\ x.b = off THEN {} ELSE {"words"})
               \cup (IF ~x.hasrule THEN {} ELSE {"labels"})
          ELSE (IF x.hasrule /\ x.rule = (IF usesym THEN d.sym ELSE d.lab) THEN {} ELSE {"labels"}))
    \cup (IF d.k = "L" THEN {}
          ELSE IF d.k = "U" THEN JEq(d.kids[1], x.kids[1], toks, usesym, off)
          ELSE JEq(d.kids[1], x.kids[1], toks, usesym, off) \cup JEq(d.kids[2], x.kids[2], toks, usesym, off + Len(LeafSeq(d.kids[1]))))
(* the token list of a sentence is that of its first tree *)
JiggTokensFails(d1, toks) ==
  LET ls == LeafSeq(d1) IN
  IF Len(toks) # Len(ls) THEN {"tokens"}
  ELSE (IF \A i \in DOMAIN toks : toks[i].start = i - 1 /\ toks[i].cat = CatText(ls[i].cat) THEN {} ELSE {"tokens"})
    \cup (IF \A i \in DOMAIN toks : PairsOf(toks[i].attrs) = JiggTokPairs(ls[i].tok) THEN {} ELSE {"attrs"})
    \cup (IF Unique([i \in DOMAIN toks |-> toks[i].id]) THEN {} ELSE {"token_ids_not_unique"})
(* a sentence element is self-contained: over ALL its ccg elements (the n-best derivations) span ids are unique, and so are the ids of *)
(* the ccg elements themselves                                                                                                     *)
JiggSentenceFails(spanids, ccgids) ==
     (IF Unique(spanids) THEN {} ELSE {"span_ids_not_unique_in_sentence"})
  \cup (IF Unique(ccgids) THEN {} ELSE {"ccg_ids_not_unique_in_sentence"})
JiggCcgFails(d, ccg, toks, usesym) ==
  LET x == JBuild(ccg.spans, ccg.root, Len(ccg.spans) + 1) IN
  JiggIntegrity(ccg, toks)
  \cup (IF ~x.ok THEN {"shape"}
        ELSE JEq(d, x, toks, usesym, 0) \cup (IF JTiles(x) /\ x.b = 0 /\ x.e = Len(toks) THEN {} ELSE {"offsets"}))

(* ---------------- which reader a file name selects (read_trees_guess_extension) ---------------- *)
(* decided by the end of the name, the longer extension first; anything else is read as AUTO; names are code points *)
EndsWith(s, suf) == Len(s) >= Len(suf) /\ SubSeq(s, Len(s) - Len(suf) + 1, Len(s)) = suf
ExtJigg == <<46, 106, 105, 103, 103, 46, 120, 109, 108>>      \* .jigg.xml
ExtXml == <<46, 120, 109, 108>>                               \* .xml
ExtPtb == <<46, 112, 116, 98>>                                \* .ptb
ReaderByExtension(name) == IF EndsWith(name, ExtJigg) THEN "jigg_xml" ELSE IF EndsWith(name, ExtXml) THEN "xml"
                           ELSE IF EndsWith(name, ExtPtb) THEN "ptb" ELSE "auto"
(* a file named by the convention of its format goes to the reader of that format, whatever precedes the extension *)
ASSUME \A stem \in {<<>>, <<97>>, ExtXml, ExtPtb, ExtJigg, <<97, 46>>, <<46, 120, 109>>} :
         /\ ReaderByExtension(stem \o ExtJigg) = "jigg_xml" /\ ReaderByExtension(stem \o ExtXml) = "xml"
         /\ ReaderByExtension(stem \o ExtPtb) = "ptb" /\ ReaderByExtension(stem \o <<46, 97, 117, 116, 111>>) = "auto"

(* ---------------- Prolog (LangPro) terms ---------------- *)
(* lower: sequence of <<base, lower-cased base>> supplied with the event (TLC cannot change case) *)
Lower(lower, b) == LET m == SelectSeq(lower, LAMBDA p : p[1] = b) IN IF Len(m) = 0 THEN b ELSE m[1][2]
RECURSIVE PrologCatEn(_, _)
PrologCatEn(c, lower) ==
  IF c.k = "A" THEN
     (CASE c.b = "." -> "period" [] c.b = "," -> "comma" [] c.b = ":" -> "colon" [] c.b = ";" -> "semicolon"
        [] OTHER -> IF FeatText(c.f) = "" THEN Lower(lower, c.b) ELSE Lower(lower, c.b) \o ":" \o FeatText(c.f))
  ELSE "(" \o PrologCatEn(c.l, lower) \o c.s \o PrologCatEn(c.r, lower) \o ")"
CaseOf(f) == IF f.t = "T" /\ \E i \in 1..3 : f.kv[i].k = "case"
             THEN (CHOOSE v \in {f.kv[i].v : i \in {j \in 1..3 : f.kv[j].k = "case"}} : TRUE) ELSE ""
RECURSIVE PrologCatJa(_, _)
PrologCatJa(c, lower) ==
  IF c.k = "A" THEN (IF CaseOf(c.f) = "" THEN Lower(lower, c.b) ELSE Lower(lower, c.b) \o ":" \o Lower(lower, CaseOf(c.f)))
  ELSE "(" \o PrologCatJa(c.l, lower) \o c.s \o PrologCatJa(c.r, lower) \o ")"
EnFunctor(lab) == CASE lab = "fa" -> "fa" [] lab = "ba" -> "ba" [] lab \in {"fx", "fc"} -> "fc" [] lab = "bx" -> "bxc"
                    [] lab = "gfc" -> "gfc" [] lab = "gbx" -> "gbx" [] lab = "rp" -> "rp" [] OTHER -> ""
JaFunctor(sym) == CASE sym = "SSEQ" -> "sseq" [] sym = ">" -> "fa" [] sym = "<" -> "ba" [] sym = ">B" -> "fc"
                    [] sym = "<B1" -> "bc1" [] sym = "<B2" -> "bc2" [] sym = "<B3" -> "bc3" [] sym = "<B4" -> "bc4"
                    [] sym = ">Bx1" -> "fx1" [] sym = ">Bx2" -> "fx2" [] sym = ">Bx3" -> "fx3"
                    [] sym = "ADNext" -> "adnext" [] sym = "ADNint" -> "adnint" [] sym = "ADV0" -> "adv0" [] sym = "ADV1" -> "adv1"
                    [] sym = "ADV2" -> "adv2" [] sym = "OTHER" -> "other" [] OTHER -> ""
IsTerm(t) == "f" \in DOMAIN t
IsAtomT(t) == "a" \in DOMAIN t
ArgIs(t, i, txt) == Len(t.args) >= i /\ IsAtomT(t.args[i]) /\ t.args[i].a = txt
RECURSIVE PlEn(_, _, _)
PlEn(d, t, lower) ==
  IF ~IsTerm(t) THEN {"shape"}
  ELSE IF d.k = "L" THEN
       (IF t.f = "t" /\ Len(t.args) = 6 THEN {} ELSE {"shape"})
       \cup (IF ArgIs(t, 1, PrologCatEn(d.cat, lower)) THEN {} ELSE {"cats"})
       \cup (IF Len(t.args) >= 2 /\ IsAtomT(t.args[2]) /\ t.args[2].cp = AttrCP(d.tok, "word") THEN {} ELSE {"words"})
       \cup (IF ArgIs(t, 3, AttrV(d.tok, "lemma", "XX")) /\ ArgIs(t, 4, AttrV(d.tok, "pos", "XX")) /\ ArgIs(t, 5, AttrV(d.tok, "chunk", "XX"))
                /\ ArgIs(t, 6, AttrV(d.tok, "entity", "XX")) THEN {} ELSE {"attrs"})
  ELSE IF d.k = "U" THEN
       (IF t.f = "lx" /\ Len(t.args) = 3 /\ IsTerm(t.args[3]) THEN PlEn(d.kids[1], t.args[3], lower) ELSE {"shape"})
       \cup (IF ArgIs(t, 1, PrologCatEn(d.cat, lower)) /\ ArgIs(t, 2, PrologCatEn(d.kids[1].cat, lower)) THEN {} ELSE {"cats"})
  ELSE IF d.lab = "conj" THEN
       (IF t.f = "conj" /\ Len(t.args) = 4 /\ IsTerm(t.args[3]) /\ IsTerm(t.args[4])
        THEN PlEn(d.kids[1], t.args[3], lower) \cup PlEn(d.kids[2], t.args[4], lower) ELSE {"shape"})
       \cup (IF ArgIs(t, 1, PrologCatEn(d.cat, lower)) /\ (d.cat.k = "F" => ArgIs(t, 2, PrologCatEn(d.cat.l, lower))) THEN {} ELSE {"cats"})
  ELSE IF d.lab = "lp" THEN
       (IF t.f = "lx" /\ Len(t.args) = 3 /\ IsTerm(t.args[3]) /\ t.args[3].f = "lp" /\ Len(t.args[3].args) = 3
           /\ IsTerm(t.args[3].args[2]) /\ IsTerm(t.args[3].args[3])
        THEN PlEn(d.kids[1], t.args[3].args[2], lower) \cup PlEn(d.kids[2], t.args[3].args[3], lower)
             \cup (IF ArgIs(t.args[3], 1, PrologCatEn(d.kids[2].cat, lower)) THEN {} ELSE {"cats"})
        ELSE {"shape"})
       \cup (IF ArgIs(t, 1, PrologCatEn(d.cat, lower)) /\ ArgIs(t, 2, PrologCatEn(d.kids[2].cat, lower)) THEN {} ELSE {"cats"})
  ELSE (IF EnFunctor(d.lab) # "" /\ t.f = EnFunctor(d.lab) THEN {} ELSE {"labels"})
       \cup (IF Len(t.args) = 3 /\ IsTerm(t.args[2]) /\ IsTerm(t.args[3])
             THEN PlEn(d.kids[1], t.args[2], lower) \cup PlEn(d.kids[2], t.args[3], lower) ELSE {"shape"})
       \cup (IF ArgIs(t, 1, PrologCatEn(d.cat, lower)) THEN {} ELSE {"cats"})
RECURSIVE JoinSlash(_)
JoinSlash(q) == IF Len(q) = 1 THEN q[1] ELSE q[1] \o "/" \o JoinSlash(Tail(q))
JaPlPos(tok) == LET tags == [i \in 1..4 |-> AttrV(tok, <<"pos", "pos1", "pos2", "pos3">>[i], "*")]
                IN IF \A i \in 1..4 : tags[i] = "*" THEN "*" ELSE JoinSlash(tags)
RECURSIVE PlJa(_, _, _)
PlJa(d, t, lower) ==
  IF ~IsTerm(t) THEN {"shape"}
  ELSE IF d.k = "L" THEN
       (IF t.f = "t" /\ Len(t.args) = 6 THEN {} ELSE {"shape"})
       \cup (IF ArgIs(t, 1, PrologCatJa(d.cat, lower)) THEN {} ELSE {"cats"})
       \cup (IF Len(t.args) >= 2 /\ IsAtomT(t.args[2]) /\ t.args[2].cp = (IF HasAttr(d.tok, "surf") THEN AttrCP(d.tok, "surf") ELSE AttrCP(d.tok, "word"))
             THEN {} ELSE {"words"})
       \cup (IF ArgIs(t, 3, AttrV(d.tok, "base", "*")) /\ ArgIs(t, 4, JaPlPos(d.tok)) /\ ArgIs(t, 5, AttrV(d.tok, "inflectionForm", "*"))
                /\ ArgIs(t, 6, AttrV(d.tok, "inflectionType", "*")) THEN {} ELSE {"attrs"})
  ELSE (IF JaFunctor(d.sym) # "" /\ t.f = JaFunctor(d.sym) THEN {} ELSE {"labels"})
       \cup (IF ArgIs(t, 1, PrologCatJa(d.cat, lower)) THEN {} ELSE {"cats"})
       \cup (IF Len(t.args) = Len(d.kids) + 1 /\ \A i \in DOMAIN d.kids : IsTerm(t.args[i + 1])
             THEN UNION {PlJa(d.kids[i], t.args[i + 1], lower) : i \in DOMAIN d.kids} ELSE {"shape"})
PrologFails(lang, d, t, lower) == IF lang = "en" THEN PlEn(d, t, lower) ELSE PlJa(d, t, lower)

(* ---------------- trees returned by the treebank readers (C08 C12b C15 C20) ---------------- *)
(* d: the derivation that was printed (binary nodes carry gr = the grammar's results for their children, *)
(* as returned by the real rule function); r: projection of the tree the reader returned.               *)
(* the word a reader returns: AUTO keeps the escaped spelling.  The PTB and Japanese formats cannot tell a word that *is*
   an escape string (-LRB- ...) from the bracket it escapes, so for such a word either spelling is accepted; every other
   word - in particular a token that is itself a bracket - has to come back exactly *)
Escapes == {LRB, RRB, LCB, RCB, LSB, RSB}
ReadWordOk(f, w, rw) == CASE f = "auto" -> rw = Denorm(w)
                          [] f \in {"ptb", "ja"} -> IF w \in Escapes THEN rw \in {w, Norm(w)} ELSE rw = w
                          [] OTHER -> rw = w
HasHeadField(f) == f \in {"auto"}      \* xml, jigg_xml, ptb and nltk trees have no head field: the head comes from the rule
Deriving(d) == SelectSeq(d.gr, LAMBDA g : g.c = d.cat)
(* what the properties demand of one node, by property *)
RECURSIVE ReadFails(_, _, _)
ReadFails(f, d, r) ==
  IF ~(d.k = r.k /\ Len(d.kids) = Len(r.kids)) THEN {"R.shape"}
  ELSE (IF r.cat = d.cat THEN {} ELSE {"R.cats"})
    \cup (IF d.k = "L" THEN
            (IF ReadWordOk(f, AttrCP(d.tok, "word"), AttrCP(r.tok, IF f \in {"jigg_xml", "ja"} /\ ~HasAttr(r.tok, "word") THEN "surf" ELSE "word"))
             THEN {} ELSE {"R.words"})
            \cup (CASE f = "auto" -> (IF AttrV(r.tok, "pos", "<absent>") = AttrV(d.tok, "pos", "POS") THEN {} ELSE {"R.pos"})
                    \* C&C XML carries every attribute of the token (whatever its name): the same set of (name, value) pairs comes back
                    [] f = "xml" -> (IF {<<r.tok[i].k, r.tok[i].v>> : i \in DOMAIN r.tok} = {<<d.tok[i].k, d.tok[i].v>> : i \in DOMAIN d.tok}
                                     THEN {} ELSE {"R.attrs"})
                    [] OTHER -> {})
          ELSE IF d.k = "U" THEN
            (CASE f = "xml" -> (IF r.lab = d.lab THEN {} ELSE {"R.labels"})
               [] f = "ja" -> (IF r.sym = d.sym THEN {} ELSE {"R.symbols"})
               [] OTHER -> {})
          ELSE
            (IF HasHeadField(f) THEN (IF r.hl = d.hl THEN {} ELSE {"R.heads"}) ELSE {})
            \cup (IF f = "ja" THEN (IF r.sym = d.sym THEN {} ELSE {"R.symbols"})
                  ELSE LET dv == Deriving(d) IN
                       IF Len(dv) > 0
                       THEN (IF \E i \in DOMAIN dv : dv[i].lab = r.lab /\ dv[i].sym = r.sym THEN {} ELSE {"L.derivable_node_without_rule_label"})
                            \cup (IF HasHeadField(f) \/ \E i \in DOMAIN dv : dv[i].lab = r.lab /\ dv[i].hl = r.hl THEN {} ELSE {"L.head_not_from_rule"})
                       ELSE (IF r.lab = "unk" THEN {} ELSE {"L.underivable_node_not_unknown"})))
    \cup UNION {ReadFails(f, d.kids[i], r.kids[i]) : i \in DOMAIN d.kids}
=============================================================================
