------------------------------- MODULE MCUnify -------------------------------
(* Laws of the matching relation on a bounded universe, and test vectors.   *)
EXTENDS Unify, Json
V(n) == Atom(n, NoF)
Pats == << <<Fun(V("a"), "/", V("b")), V("b")>>,
           <<V("b"), Fun(V("a"), "\\", V("b"))>>,
           <<Fun(V("a"), "/", V("b")), Fun(V("b"), "/", V("c"))>>,
           <<Fun(V("b"), "/", V("c")), Fun(V("a"), "\\", V("b"))>>,
           <<Fun(V("a"), "/", V("b")), Fun(Fun(V("b"), "/", V("c")), "|", V("d"))>>,
           <<Fun(Fun(V("b"), "\\", V("c")), "|", V("d")), Fun(V("a"), "\\", V("b"))>>,
           \* not linear (no grammar pattern is): a variable at two places of one pattern
           <<Fun(V("a"), "/", V("a")), V("a")>>,
           <<V("b"), Fun(V("b"), "\\", V("b"))>>,
           <<Fun(V("a"), "|", V("b")), Fun(V("b"), "/", V("a"))>> >>
TFa == TF(KV("mod", "nm", FALSE), KV("form", "base", FALSE), KV("fin", "f", FALSE))
TFx == TF(KV("mod", "X1", TRUE), KV("form", "base", FALSE), KV("fin", "f", FALSE))
AtomsEn == {Atom("S", NoF), Atom("S", UF("dcl")), Atom("S", UF("X")), Atom("NP", UF("nb")), Atom("NP", NoF)}
AtomsJa == {Atom("S", TFa), Atom("S", TFx), Atom("NP", TFa)}
CONSTANT Sel
Atoms == IF Sel = "en" THEN AtomsEn ELSE AtomsJa
U1 == CatsUpTo(1, Atoms, {"/", "\\"})

VARIABLES pi, x, y
vars == <<pi, x, y>>
Init == pi \in DOMAIN Pats /\ x \in U1 /\ y \in U1
Next == FALSE /\ UNCHANGED vars
Spec == Init /\ [][Next]_vars
px == Pats[pi][1]
py == Pats[pi][2]
vd == Verdict(px, py, x, y)
(* a success binds every variable to one of its occurrences *)
OkBindsOccurrences == vd = "ok" => \A v \in Vars(px) \cup Vars(py) :
                         LET occs == Occ(px, x, v) \o Occ(py, y, v) IN \A k \in DOMAIN occs : BindingAllowed(px, py, x, y, v, occs[k])
(* exact instances of the patterns always match *)
A0 == CHOOSE a \in Atoms : TRUE
(* depends on the pattern pair only: evaluated in one state per pattern pair *)
InstancesMatch == (x = A0 /\ y = A0) => \A s \in [Vars(px) \cup Vars(py) -> Atoms] :
                     Verdict(px, py, Inst(px, s, "/"), Inst(py, s, "\\")) = "ok"
(* the relation is insensitive to the features that matching ignores *)
NbIrrelevant == vd = Verdict(px, py, ClearFeats(x, {UF("nb")}), ClearFeats(y, {UF("nb")}))
VerdictTotal == vd \in {"ok", "fail", "unspec"}
Emit == PrintT("VEC " \o ToJson([pi |-> pi, x |-> x, y |-> y, vd |-> vd]))
=============================================================================
