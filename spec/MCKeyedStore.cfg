SPECIFICATION Spec
CONSTANTS
  Keys <- K3
  MaxLen = 4
INVARIANT Consistent
INVARIANT StoreIsSetOfKeys
INVARIANT EmitHistories
CHECK_DEADLOCK FALSE
