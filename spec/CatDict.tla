------------------------------- MODULE CatDict -------------------------------
(* C17: the category dictionary as one action over arrays.                   *)
(*   out[s][i][c] = IF word[s][i] in DOMAIN dict /\ c not listed for it      *)
(*                  THEN NEG ELSE in[s][i][c]                                 *)
(* dependency scores, token order and tokens of other words are untouched.   *)
EXTENDS Integers, Sequences, FiniteSets, TLC, Json

NEG == -999999          \* stands for the large negative value (-10e32 does not fit TLC integers)
Filtered(words, tagIn, dict, ncat) ==
  [s \in DOMAIN words |-> [i \in DOMAIN words[s] |-> [c \in 1..ncat |->
      IF words[s][i] \in DOMAIN dict /\ c \notin dict[words[s][i]] THEN NEG ELSE tagIn[s][i][c]]]]

CONSTANTS Words, NCat, MaxSent, MaxTok
VARIABLES words, tagIn, depIn, dict, tagOut, depOut, wordsOut, done
vars == <<words, tagIn, depIn, dict, tagOut, depOut, wordsOut, done>>
(* position-coded scores: every entry is different, so any mix-up of rows, columns or sentences shows *)
TagCode(s, i, c) == -(100 * s + 10 * i + c)
DepCode(s, i, h) == -(1000 + 100 * s + 10 * i + h)
Docs == UNION {[1..n -> UNION {[1..k -> Words] : k \in 1..MaxTok}] : n \in 1..MaxSent}
Dicts == UNION {[D -> SUBSET (1..NCat)] : D \in SUBSET Words}
Init == /\ words \in Docs /\ dict \in Dicts
        /\ tagIn = [s \in DOMAIN words |-> [i \in DOMAIN words[s] |-> [c \in 1..NCat |-> TagCode(s, i, c)]]]
        /\ depIn = [s \in DOMAIN words |-> [i \in DOMAIN words[s] |-> [h \in 1..(Len(words[s]) + 1) |-> DepCode(s, i, h)]]]
        /\ tagOut = tagIn /\ depOut = depIn /\ wordsOut = words /\ done = FALSE
Filter == /\ ~done /\ done' = TRUE
          /\ tagOut' = Filtered(words, tagIn, dict, NCat)
          /\ UNCHANGED <<words, tagIn, depIn, dict, depOut, wordsOut>>
Next == Filter
Spec == Init /\ [][Next]_vars

ListedKept == done => \A s \in DOMAIN words : \A i \in DOMAIN words[s] : \A c \in 1..NCat :
                (words[s][i] \in DOMAIN dict /\ c \in dict[words[s][i]]) => tagOut[s][i][c] = tagIn[s][i][c]
OthersNeg == done => \A s \in DOMAIN words : \A i \in DOMAIN words[s] : \A c \in 1..NCat :
                (words[s][i] \in DOMAIN dict /\ c \notin dict[words[s][i]]) => tagOut[s][i][c] = NEG
UnlistedWordsUntouched == done => \A s \in DOMAIN words : \A i \in DOMAIN words[s] :
                words[s][i] \notin DOMAIN dict => tagOut[s][i] = tagIn[s][i]
DepsAndOrderUntouched == depOut = depIn /\ wordsOut = words
Idempotent == done => Filtered(words, tagOut, dict, NCat) = tagOut
Emit == ~done => PrintT("VEC " \o ToJson([words |-> words, dom |-> dict, ncat |-> NCat]))
=============================================================================
