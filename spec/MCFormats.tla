------------------------------ MODULE MCFormats ------------------------------
(* Spec-level laws of Formats.tla, checked by TLC on every derivation with up  *)
(* to MaxLeaves leaves (unary nodes, both head directions): the decoders are   *)
(* not vacuous and not inconsistent.                                           *)
(*   - Deps: exactly one root, no self loops, acyclic, every word attaches     *)
(*     inside the span of the node that attaches it                            *)
(*   - reference encoders (AUTO node model, deriv layout) followed by the      *)
(*     decoders give no failing field; corrupting one field gives one          *)
EXTENDS Formats, Json
CONSTANT MaxLeaves
C1 == Atom("NP", NoF)
C2 == Fun(Atom("S", UF("dcl")), "\\", Atom("NP", NoF))
Cats2 == {C1, C2}
W(i) == <<[k |-> "pos", v |-> "NN", cp |-> <<78, 78>>], [k |-> "word", v |-> "w", cp |-> <<119, 48 + i>>]>>
Leaf(c, i) == [k |-> "L", cat |-> c, lab |-> "lex", sym |-> "<lex>", hl |-> TRUE, tok |-> W(i), kids |-> <<>>]
Un(c, t) == [k |-> "U", cat |-> c, lab |-> "lex", sym |-> "<un>", hl |-> TRUE, tok |-> <<>>, kids |-> <<t>>]
Bin(c, l, r, hl) == [k |-> "B", cat |-> c, lab |-> "fa", sym |-> ">", hl |-> hl, tok |-> <<>>, kids |-> <<l, r>>]
(* The derivations are grown by a shift-reduce machine (one action per constructor), so that TLC explores them as a state graph
   with all its workers instead of building the whole set of trees for the initial predicate (which it does in one thread and
   did not finish for four leaves): a state is a forest over the leaves 1..nl; Shift adds a leaf, Wrap puts a unary node on
   the last tree (at most one per node), Reduce joins the last two trees with either head direction.  Every derivation with up
   to MaxLeaves leaves is the single tree of exactly one reachable state; the laws are stated for those states. *)
VARIABLES forest, nl
Init == forest = <<>> /\ nl = 0
Shift(c) == nl < MaxLeaves /\ nl' = nl + 1 /\ forest' = Append(forest, Leaf(c, nl + 1))
Wrap == /\ Len(forest) >= 1 /\ forest[Len(forest)].k # "U"
        /\ forest' = [forest EXCEPT ![Len(forest)] = Un(C2, @)] /\ UNCHANGED nl
Reduce(hl) == /\ Len(forest) >= 2
              /\ forest' = Append(SubSeq(forest, 1, Len(forest) - 2), Bin(C1, forest[Len(forest) - 1], forest[Len(forest)], hl))
              /\ UNCHANGED nl
Next == (\E c \in Cats2 : Shift(c)) \/ Wrap \/ (\E hl \in BOOLEAN : Reduce(hl))
Spec == Init /\ [][Next]_<<forest, nl>>
Complete == Len(forest) = 1
d == IF Complete THEN forest[1] ELSE Leaf(C1, 1)       \* the laws below are evaluated on complete derivations (a leaf otherwise)

NL == Len(LeafSeq(d))
dp == Deps(d)
RECURSIVE Reaches(_, _)
Reaches(i, fuel) == IF dp[i] = 0 THEN TRUE ELSE IF fuel = 0 THEN FALSE ELSE Reaches(dp[i], fuel - 1)
DepsOneRoot == Len(dp) = NL /\ Cardinality({i \in 1..NL : dp[i] = 0}) = 1
DepsAcyclic == \A i \in 1..NL : dp[i] # i /\ dp[i] \in 0..NL /\ Reaches(i, NL)
(* every binary node attaches the head of its non-head child to the head of its head child: both inside its span *)
RECURSIVE SpanOK(_, _)
SpanOK(t, off) ==
  IF t.k = "L" THEN TRUE
  ELSE IF t.k = "U" THEN SpanOK(t.kids[1], off)
  ELSE LET a == Walk(t.kids[1], off)  b == Walk(t.kids[2], off + a.n)
           h == IF t.hl THEN a.h ELSE b.h   c == IF t.hl THEN b.h ELSE a.h
       IN /\ dp[c] = h /\ h \in (off + 1)..(off + a.n + b.n) /\ c \in (off + 1)..(off + a.n + b.n)
          /\ SpanOK(t.kids[1], off) /\ SpanOK(t.kids[2], off + a.n)
DepsInsideSpans == SpanOK(d, 0)

(* ---- reference encoder for the AUTO node model ---- *)
RECURSIVE EncAuto(_)
EncAuto(t) ==
  IF t.k = "L"
  THEN [k |-> "L", cat |-> CatText(t.cat), cat2 |-> CatText(t.cat), lab |-> "", sym |-> "", hl |-> -1, n |-> -1,
        wordcp |-> Denorm(AttrCP(t.tok, "word")),
        attrs |-> <<[k |-> "pos", v |-> AttrV(t.tok, "pos", "POS"), cp |-> <<>>], [k |-> "pos2", v |-> AttrV(t.tok, "pos", "POS"), cp |-> <<>>]>>,
        b |-> -1, e |-> -1, id |-> "", kids |-> <<>>]
  ELSE [k |-> "T", cat |-> CatText(t.cat), cat2 |-> "", lab |-> "", sym |-> "", hl |-> IF t.hl THEN 1 ELSE 0, n |-> Len(t.kids),
        wordcp |-> <<>>, attrs |-> <<>>, b |-> -1, e |-> -1, id |-> "", kids |-> [i \in DOMAIN t.kids |-> EncAuto(t.kids[i])]]
AutoRoundTrip == NodeFails("auto", d, EncAuto(d)) = {}
(* sensitivity: a wrong head flag or category at the root is noticed *)
AutoSensitive == LET x == EncAuto(d) IN
                 /\ (d.k # "L" => "heads" \in NodeFails("auto", d, [x EXCEPT !.hl = 1 - x.hl]))
                 /\ "cats" \in NodeFails("auto", d, [x EXCEPT !.cat = "X"])
                 /\ (d.k = "L" => "words" \in NodeFails("auto", d, [x EXCEPT !.wordcp = <<63>>]))

(* ---- reference layout encoder for deriv ---- *)
LeafW(t) == 2 + Max2(Len(CatText(t.cat)), Len(AttrCP(t.tok, "word")))
RECURSIVE Steps(_, _)
Steps(t, off) ==   \* [steps, width]
  IF t.k = "L" THEN [steps |-> <<>>, w |-> LeafW(t)]
  ELSE IF t.k = "U" THEN
       LET c == Steps(t.kids[1], off)
       IN [steps |-> Append(c.steps, [a |-> off, b |-> off + c.w, sym |-> t.sym, cat |-> CatText(t.cat), catcol |-> 0]), w |-> c.w]
  ELSE LET l == Steps(t.kids[1], off)  r == Steps(t.kids[2], off + l.w)
       IN [steps |-> Append(l.steps \o r.steps, [a |-> off, b |-> off + l.w + r.w, sym |-> t.sym, cat |-> CatText(t.cat), catcol |-> 0]), w |-> l.w + r.w]
EncDeriv(t) ==
  LET ls == LeafSeq(t)
      RECURSIVE Start(_)
      Start(i) == IF i = 1 THEN 0 ELSE Start(i - 1) + LeafW(ls[i - 1])
  IN [cats |-> [i \in DOMAIN ls |-> [col |-> Start(i) + ((LeafW(ls[i]) - Len(CatText(ls[i].cat))) \div 2), t |-> CatText(ls[i].cat)]],
      words |-> [i \in DOMAIN ls |-> [col |-> Start(i) + ((LeafW(ls[i]) - Len(AttrCP(ls[i].tok, "word"))) \div 2), cp |-> AttrCP(ls[i].tok, "word")]],
      steps |-> Steps(t, 0).steps]
DerivRoundTrip == DerivFails(d, EncDeriv(d)) = {}
DerivSensitive == d.k # "L" => LET r == EncDeriv(d) IN
                     "labels" \in DerivFails(d, [r EXCEPT !.steps[Len(r.steps)].sym = "?"])
=============================================================================
