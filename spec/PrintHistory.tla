----------------------------- MODULE PrintHistory -----------------------------
(* C18: printing is an observation.  objs is the abstract snapshot of every  *)
(* tree, category and token of a parse result; Render(f) returns Out(f, objs) *)
(* and leaves objs unchanged, so any history of renderings of the same        *)
(* objects gives, for each format, the output of a fresh copy.                *)
EXTENDS Naturals, Sequences, FiniteSets, TLC, Json
CONSTANTS Formats, MaxLen, Objs
VARIABLES objs, hist, last
vars == <<objs, hist, last>>
Out(f, o) == <<f, o>>                       \* the output is a function of format and objects only
Init == objs \in Objs /\ hist = <<>> /\ last = <<>>
Render(f) == /\ Len(hist) < MaxLen
             /\ hist' = Append(hist, f)
             /\ last' = Out(f, objs)
             /\ UNCHANGED objs
Next == \E f \in Formats : Render(f)
Spec == Init /\ [][Next]_vars
ObjectsUnchanged == [][objs' = objs]_vars
SameAsFresh == hist # <<>> => last = Out(hist[Len(hist)], objs)
(* spec -> code: every complete history is a sequence of formats to replay on one persistent result object *)
Emit == Len(hist) = MaxLen => PrintT("VEC " \o ToJson(hist))
=============================================================================
