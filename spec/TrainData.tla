------------------------------ MODULE TrainData ------------------------------
(* The training-data creator (depccg/tools/data.py: TrainingDataCreator.        *)
(* create_traindata) as a state machine, one action per stage of the function:  *)
(*   Load      read_auto on the bank; trees over the single word FAILED (the    *)
(*             failure placeholder as `auto` prints it) are dropped             *)
(*   Traverse  one tree per step: leaf categories, (lower-cased) words, binary  *)
(*             child-category pairs and unary (parent, child) pairs are counted *)
(*             in tables that grow on first use (defaultdict(int))              *)
(*   Samples   one training sample per kept tree (Formats!TrainFails judges the *)
(*             sample itself; here only their number and order matter)          *)
(*   Write     target.txt   leaf categories seen at least CatCut times          *)
(*             words.txt    words seen at least WordCut times, and the three    *)
(*                          reserved entries, which start at WordCut            *)
(*             seen_rules.txt   binary pairs whose two categories are BOTH in   *)
(*                          target.txt - i.e. frequent *lexical* categories     *)
(*             unary_rules.txt  every unary pair, parent first                  *)
(*             prefixes.txt / suffixes.txt   the first / last 1..4 characters   *)
(*                          of every leaf word (case kept, unlike words.txt),   *)
(*                          a word shorter than k counting as OORk instead, seen *)
(*                          at least AfixCut times; six reserved entries start   *)
(*                          at AfixCut.  The keys are plain strings: a word that  *)
(*                          ends in the letters OOR2 feeds the same counter as   *)
(*                          the one-letter words (modelled as it is)             *)
(*             trainsents.txt / trainsents.conll (testsents.* in test mode)      *)
(*                          one line per kept tree: its words (case kept);       *)
(*                          one block per kept tree: a row per word - position,  *)
(*                          word (twice), POS POS _ , the position of its head   *)
(*                          (0 for the root; head-FIRST: the head of a binary    *)
(*                          node is the head of its left child whatever the      *)
(*                          bank says), none _ , its category - and a blank line *)
(* What the code does is modelled, including what a user may not expect         *)
(* (NotEveryTreeOfTheBankIsLicensed below); no listed property is about this    *)
(* tool, its conformance is reported, never claimed.                            *)
(* A tree is used through its flat projection (Flat): the creator reads nothing *)
(* else of it.  The trace specification feeds recorded projections to the same  *)
(* operators.                                                                   *)
EXTENDS Naturals, Sequences, FiniteSets, TLC, Json
CONSTANTS Cats, Words, MaxTrees, Depth, CatCut, WordCut, AfixCut,
          Mode,       \* "train" (create_traindata) or "test" (create_testdata: every tree is kept, no table is counted or written)
          SpellOf     \* how a model word is spelled: a function Words -> non-empty sequences of one-character strings
Failed == "FAILED"
Reserved == {"*UNKNOWN*", "*START*", "*END*"}
AfixReserved == Reserved \cup {"OOR2", "OOR3", "OOR4"}
Spell(w) == IF w = Failed THEN <<"F", "A", "I", "L", "E", "D">> ELSE SpellOf[w]

(* ---- affixes (get_prefix / get_suffix): keys are strings, a word is a sequence of characters ---- *)
RECURSIVE Join(_)
Join(cs) == IF cs = <<>> THEN "" ELSE Head(cs) \o Join(Tail(cs))
OOR(k) == CASE k = 2 -> "OOR2" [] k = 3 -> "OOR3" [] k = 4 -> "OOR4"
Prefixes(cs) == [k \in 1..4 |-> IF k = 1 \/ Len(cs) >= k THEN Join(SubSeq(cs, 1, k)) ELSE OOR(k)]
Suffixes(cs) == [k \in 1..4 |-> IF k = 1 \/ Len(cs) >= k THEN Join(SubSeq(cs, Len(cs) - k + 1, Len(cs))) ELSE OOR(k)]

L(c, w) == [k |-> "L", c |-> c, w |-> w, kids |-> <<>>]
U(c, t) == [k |-> "U", c |-> c, w |-> "", kids |-> <<t>>]
B(c, s, t) == [k |-> "B", c |-> c, w |-> "", kids |-> <<s, t>>]
LeafSet == {L(c, w) : c \in Cats, w \in Words \cup {Failed}}
RECURSIVE TreesOf(_)
TreesOf(d) == IF d = 0 THEN LeafSet
              ELSE LET T == TreesOf(d - 1) IN T \cup {U(c, t) : c \in Cats, t \in T} \cup {B(c, t[1], t[2]) : c \in Cats, t \in T \X T}

RECURSIVE LeafSeq(_), BinSeq(_), UnSeq(_)
LeafSeq(t) == IF t.k = "L" THEN <<<<t.c, t.w>>>> ELSE IF t.k = "U" THEN LeafSeq(t.kids[1]) ELSE LeafSeq(t.kids[1]) \o LeafSeq(t.kids[2])
BinSeq(t) == IF t.k = "L" THEN <<>> ELSE IF t.k = "U" THEN BinSeq(t.kids[1])
             ELSE <<<<t.kids[1].c, t.kids[2].c>>>> \o BinSeq(t.kids[1]) \o BinSeq(t.kids[2])
UnSeq(t) == IF t.k = "L" THEN <<>> ELSE IF t.k = "U" THEN <<<<t.c, t.kids[1].c>>>> \o UnSeq(t.kids[1])
            ELSE UnSeq(t.kids[1]) \o UnSeq(t.kids[2])
(* everything the creator reads of a tree *)
(* `failed`: the test in the code is `tree.word != 'FAILED'`, and the word of an inner node is the words of its leaves joined by  *)
(* blanks - so a unary chain over one leaf FAILED is dropped as well as the bare leaf; words are counted lower-cased             *)
Lower(w) == CASE w = Failed -> "failed" [] w = "OOR2" -> "oor2" [] OTHER -> w        \* the model's other words are lower-case already
(* head-first dependencies (_get_dependencies): the head word of a node is the head word of its first child; the head word of *)
(* the second child of a binary node depends on it; the root's head word depends on 0                                          *)
RECURSIVE Arcs(_, _)
Arcs(t, off) == IF t.k = "L" THEN [h |-> off + 1, n |-> 1, a |-> {}]
                ELSE IF t.k = "U" THEN Arcs(t.kids[1], off)
                ELSE LET l == Arcs(t.kids[1], off)
                         r == Arcs(t.kids[2], off + l.n)
                     IN [h |-> l.h, n |-> l.n + r.n, a |-> l.a \cup r.a \cup {<<r.h, l.h>>}]
DepsOf(t) == LET x == Arcs(t, 0) IN [j \in 1..x.n |-> IF j = x.h THEN 0 ELSE (CHOOSE p \in x.a : p[1] = j)[2]]
Flat(t) == LET ls == LeafSeq(t) IN
           [failed |-> Len(ls) = 1 /\ ls[1][2] = Failed, leaves |-> [j \in DOMAIN ls |-> <<ls[j][1], Lower(ls[j][2]), Spell(ls[j][2])>>],
            bins |-> BinSeq(t), uns |-> UnSeq(t), deps |-> DepsOf(t)]

VARIABLES bank,      \* the file: a sequence of flat projections
          pc, kept, i, catn, wordn, seenn, unn, pren, sufn, nsamples, out
vars == <<bank, pc, kept, i, catn, wordn, seenn, unn, pren, sufn, nsamples, out>>

SeqsUpTo(S, n) == UNION {[1..k -> S] : k \in 0..n}
Empty == [x \in {} |-> 0]
NoOut == [target |-> Empty, words |-> Empty, seen |-> Empty, unary |-> Empty, prefixes |-> Empty, suffixes |-> Empty, sents |-> <<>>, conll |-> <<>>]
InitRest == /\ pc = "load" /\ kept = <<>> /\ i = 1 /\ catn = Empty /\ seenn = Empty /\ unn = Empty
            /\ wordn = [w \in Reserved |-> WordCut] /\ nsamples = 0 /\ out = NoOut
            /\ pren = [a \in AfixReserved |-> AfixCut] /\ sufn = [a \in AfixReserved |-> AfixCut]
Init == bank \in SeqsUpTo({Flat(t) : t \in TreesOf(Depth)}, MaxTrees) /\ InitRest

(* a table that grows on first use *)
Bump(f, x) == IF x \in DOMAIN f THEN [f EXCEPT ![x] = @ + 1] ELSE f @@ (x :> 1)
RECURSIVE BumpAll(_, _)
BumpAll(f, xs) == IF xs = <<>> THEN f ELSE BumpAll(Bump(f, Head(xs)), Tail(xs))
AtLeast(f, n) == [x \in {y \in DOMAIN f : f[y] >= n} |-> f[x]]
RECURSIVE Cat(_)
Cat(ss) == IF ss = <<>> THEN <<>> ELSE Head(ss) \o Cat(Tail(ss))

KeptIn(b, mode) == IF mode = "train" THEN SelectSeq(b, LAMBDA f : ~f.failed) ELSE b
(* the two files of sentences: words keep their case (the spelling), unlike words.txt *)
SentOf(f) == [j \in DOMAIN f.leaves |-> Join(f.leaves[j][3])]
RowsOf(f) == [j \in DOMAIN f.leaves |-> <<j, Join(f.leaves[j][3]), Join(f.leaves[j][3]), "POS", "POS", "_", f.deps[j], "none", "_", f.leaves[j][1]>>]
Load == /\ pc = "load" /\ kept' = KeptIn(bank, Mode) /\ pc' = IF Mode = "train" THEN "traverse" ELSE "samples"
        /\ UNCHANGED <<bank, i, catn, wordn, seenn, unn, pren, sufn, nsamples, out>>
Traverse == /\ pc = "traverse" /\ i <= Len(kept)
            /\ LET f == kept[i] IN
               /\ catn' = BumpAll(catn, [j \in DOMAIN f.leaves |-> f.leaves[j][1]])
               /\ wordn' = BumpAll(wordn, [j \in DOMAIN f.leaves |-> f.leaves[j][2]])
               /\ seenn' = BumpAll(seenn, f.bins)
               /\ unn' = BumpAll(unn, f.uns)
               /\ pren' = BumpAll(pren, Cat([j \in DOMAIN f.leaves |-> Prefixes(f.leaves[j][3])]))
               /\ sufn' = BumpAll(sufn, Cat([j \in DOMAIN f.leaves |-> Suffixes(f.leaves[j][3])]))
            /\ i' = i + 1 /\ UNCHANGED <<bank, pc, kept, nsamples, out>>
Samples == /\ ((pc = "traverse" /\ i > Len(kept)) \/ pc = "samples") /\ nsamples' = Len(kept) /\ pc' = "write"
           /\ UNCHANGED <<bank, kept, i, catn, wordn, seenn, unn, pren, sufn, out>>
Write == /\ pc = "write" /\ pc' = "done"
         /\ LET tg == AtLeast(catn, CatCut) IN
            out' = IF Mode # "train" THEN [NoOut EXCEPT !.sents = [j \in DOMAIN kept |-> SentOf(kept[j])], !.conll = [j \in DOMAIN kept |-> RowsOf(kept[j])]] ELSE
                   [target |-> tg, words |-> AtLeast(wordn, WordCut),
                    seen |-> [p \in {q \in DOMAIN seenn : q[1] \in DOMAIN tg /\ q[2] \in DOMAIN tg} |-> seenn[p]],
                    unary |-> unn, prefixes |-> AtLeast(pren, AfixCut), suffixes |-> AtLeast(sufn, AfixCut),
                    sents |-> [j \in DOMAIN kept |-> SentOf(kept[j])], conll |-> [j \in DOMAIN kept |-> RowsOf(kept[j])]]
         /\ UNCHANGED <<bank, kept, i, catn, wordn, seenn, unn, pren, sufn, nsamples>>
Next == Load \/ Traverse \/ Samples \/ Write
Spec == Init /\ [][Next]_vars /\ WF_vars(Next)

(* ---- what the files are, said without the tables (the oracle of the trace specification) ---- *)
Occ(seq, x) == Cardinality({j \in DOMAIN seq : seq[j] = x})
Range(seq) == {seq[j] : j \in DOMAIN seq}
KeptOf(b) == SelectSeq(b, LAMBDA f : ~f.failed)
ExpTarget(b, cut) == LET ls == Cat([j \in DOMAIN KeptOf(b) |-> KeptOf(b)[j].leaves])
                         cs == [j \in DOMAIN ls |-> ls[j][1]]
                     IN [c \in {x \in Range(cs) : Occ(cs, x) >= cut} |-> Occ(cs, c)]
ExpWords(b, cut) == LET ls == Cat([j \in DOMAIN KeptOf(b) |-> KeptOf(b)[j].leaves])
                        ws == [j \in DOMAIN ls |-> ls[j][2]]
                        n(w) == Occ(ws, w) + (IF w \in Reserved THEN cut ELSE 0)
                    IN [w \in {x \in Range(ws) \cup Reserved : n(x) >= cut} |-> n(w)]
ExpSeen(b, cut) == LET bs == Cat([j \in DOMAIN KeptOf(b) |-> KeptOf(b)[j].bins])
                       tg == DOMAIN ExpTarget(b, cut)
                   IN [p \in {q \in Range(bs) : q[1] \in tg /\ q[2] \in tg} |-> Occ(bs, p)]
ExpUnary(b) == LET us == Cat([j \in DOMAIN KeptOf(b) |-> KeptOf(b)[j].uns]) IN [p \in Range(us) |-> Occ(us, p)]
(* F is Prefixes or Suffixes *)
ExpAffix(b, cut, F(_)) == LET ls == Cat([j \in DOMAIN KeptOf(b) |-> KeptOf(b)[j].leaves])
                              as == Cat([j \in DOMAIN ls |-> F(ls[j][3])])
                              n(a) == Occ(as, a) + (IF a \in AfixReserved THEN cut ELSE 0)
                          IN [a \in {x \in Range(as) \cup AfixReserved : n(x) >= cut} |-> n(a)]
Expected(b, ccut, wcut, acut, mode) ==
  LET k == KeptIn(b, mode)
      files == [sents |-> [j \in DOMAIN k |-> SentOf(k[j])], conll |-> [j \in DOMAIN k |-> RowsOf(k[j])]]
  IN IF mode # "train" THEN [NoOut EXCEPT !.sents = files.sents, !.conll = files.conll]
     ELSE [target |-> ExpTarget(b, ccut), words |-> ExpWords(b, wcut), seen |-> ExpSeen(b, ccut), unary |-> ExpUnary(b),
           prefixes |-> ExpAffix(b, acut, Prefixes), suffixes |-> ExpAffix(b, acut, Suffixes), sents |-> files.sents, conll |-> files.conll]

(* ---- properties ---- *)
FilesAreTheCounts == pc = "done" => out = Expected(bank, CatCut, WordCut, AfixCut, Mode)
OneSamplePerKeptTree == pc \in {"write", "done"} => nsamples = Len(KeptIn(bank, Mode))
ReservedWordsAlwaysWritten == (pc = "done" /\ Mode = "train") => Reserved \subseteq DOMAIN out.words
SeenRulesOverTargetsOnly == pc = "done" => \A p \in DOMAIN out.seen : p[1] \in DOMAIN out.target /\ p[2] \in DOMAIN out.target
AfixReservedAlwaysWritten == (pc = "done" /\ Mode = "train") => AfixReserved \subseteq DOMAIN out.prefixes /\ AfixReserved \subseteq DOMAIN out.suffixes
(* every leaf feeds exactly four prefix counters and four suffix counters (some of them the OORk ones) *)
RECURSIVE SumOf(_, _)
SumOf(f, S) == IF S = {} THEN 0 ELSE LET x == CHOOSE y \in S : TRUE IN f[x] + SumOf(f, S \ {x})
NLeavesUpTo(n) == LET ks == SubSeq(kept, 1, n) IN Len(Cat([j \in DOMAIN ks |-> ks[j].leaves]))
FourAffixesPerLeaf == pc # "load" => /\ SumOf(pren, DOMAIN pren) = 6 * AfixCut + 4 * NLeavesUpTo(i - 1)
                                     /\ SumOf(sufn, DOMAIN sufn) = 6 * AfixCut + 4 * NLeavesUpTo(i - 1)
(* the marker OORk counts the words shorter than k - and every genuine prefix that is spelled like it (the word OOR2 feeds OOR2 with its *)
(* first four characters): the keys are plain strings, modelled as they are                                                            *)
ShortWordsFeedTheMarkers == pc # "load" =>
  \A k \in 2..4 : LET ks == SubSeq(kept, 1, i - 1)
                       ls == Cat([j \in DOMAIN ks |-> ks[j].leaves])
                       short == Cardinality({j \in DOMAIN ls : Len(ls[j][3]) < k})
                       spelled == Cardinality({jm \in (DOMAIN ls) \X (1..4) : Len(ls[jm[1]][3]) >= jm[2] /\ Prefixes(ls[jm[1]][3])[jm[2]] = OOR(k)})
                   IN pren[OOR(k)] = AfixCut + short + spelled
(* every block of the CoNLL file is a tree over its rows: exactly one root, every other word hangs (transitively) under it, and in *)
(* a head-first tree no word depends on a word to its right                                                                        *)
ConllBlocksAreHeadFirstTrees == pc = "done" => \A b \in DOMAIN out.conll :
   LET rows == out.conll[b] IN /\ Cardinality({j \in DOMAIN rows : rows[j][7] = 0}) = 1
                               /\ \A j \in DOMAIN rows : rows[j][1] = j /\ rows[j][7] < j /\ rows[j][2] = out.sents[b][j]
CountsOnlyGrow == [][\A c \in DOMAIN catn : c \in DOMAIN catn' /\ catn'[c] >= catn[c]]_vars
Terminates == <>(pc = "done")
(* NOT a property of the code (TrainData_licensed.cfg expects TLC to refute it, the harness checks that it does): with a cut of 1 *)
(* one might expect the seen rules extracted from a bank to license every binary node of that bank; a pair with a child category *)
(* that never occurs on a leaf is dropped, because target.txt counts leaf categories only                                          *)
EveryTreeOfTheBankIsLicensed ==
  (pc = "done" /\ CatCut = 1) => \A j \in DOMAIN kept : \A p \in Range(kept[j].bins) : p \in DOMAIN out.seen

(* spec -> code: every finished run is a test vector (the bank as trees cannot be recovered from the flat form, so the vector *)
(* is emitted by MCTrainData, which keeps the trees)                                                                           *)
=============================================================================
