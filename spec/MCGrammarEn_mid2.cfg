SPECIFICATION Spec
CONSTANT Sel = "mid2"
INVARIANT MustIsJustified
INVARIANT AtomNoFunctor
INVARIANT MustFunctional
INVARIANT Emit
CHECK_DEADLOCK FALSE
