SPECIFICATION Spec
CONSTANT Sel = "ja"
INVARIANT VerdictTotal
INVARIANT OkBindsOccurrences
INVARIANT InstancesMatch
INVARIANT NbIrrelevant
INVARIANT Emit
CHECK_DEADLOCK FALSE
