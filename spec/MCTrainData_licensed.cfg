SPECIFICATION MCSpec
CONSTANTS
  Cats = {"NP", "S/NP"}
  Words = {"w"}
  MaxTrees = 1
  Depth = 2
  CatCut = 1
  WordCut = 1
  Mode = "train"
  AfixCut = 1
  SpellOf <- MCSpellOf
INVARIANT EveryTreeOfTheBankIsLicensed
CHECK_DEADLOCK FALSE
