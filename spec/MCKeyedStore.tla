---------------------------- MODULE MCKeyedStore ----------------------------
EXTENDS KeyedStore
TFeat1 == TF(KV("mod", "nm", FALSE), KV("form", "X1", TRUE), KV("fin", "f", FALSE))
K3 == {Fun(Atom("S", UF("dcl")), "\\", Atom("NP", NoF)), Fun(Atom("S", NoF), "\\", Atom("NP", NoF)), Atom("S", TFeat1)}
=============================================================================
