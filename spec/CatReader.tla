----------------------------- MODULE CatReader -----------------------------
(* C05: the reader of CatReaderOps as a state machine, one action per branch. *)
EXTENDS CatReaderOps

(* ---- the machine ---- *)
CONSTANTS Universe, DecoDepth
VARIABLES m, ghost, kind, txt
vars == <<m, ghost, kind, txt>>

Init == \E v \in Universe :
          /\ ghost = v
          /\ \/ \E t \in Texts(v, DecoDepth) : m = Start(t) /\ txt = t /\ kind = "deco"
             \/ \E t \in Flats(v) : m = Start(t) /\ txt = t /\ kind = "flat"

Do(b) == m.st = "run" /\ Branch(m) = b /\ m' = Step(m) /\ UNCHANGED <<ghost, kind, txt>>
Open == Do("Open")
Slash == Do("Slash")
CloseRedundant == Do("CloseRedundant")
CloseReduce == Do("CloseReduce")
PunctAtom == Do("PunctAtom")
FeatAtom == Do("FeatAtom")
BareAtom == Do("BareAtom")
Finish1 == Do("Finish1")
Finish3 == Do("Finish3")
Reject == Do("Reject")
Next == Open \/ Slash \/ CloseRedundant \/ CloseReduce \/ PunctAtom \/ FeatAtom \/ BareAtom \/ Finish1 \/ Finish3 \/ Reject
Spec == Init /\ [][Next]_vars

(* C05 as invariants of the machine *)
RoundTrip    == (m.st # "run" /\ kind = "deco") => (m.st = "ok" /\ m.out = ghost)
PrintStable  == (m.st = "ok" /\ kind = "deco") => Show(m.out) = Show(ghost)
FlatRejected == (m.st # "run" /\ kind = "flat") => m.st = "rej"
NeverStuck   == m.st = "run" => ENABLED Next
StackShape   == \A i \in DOMAIN m.stk : m.stk[i].tk \in {"t", "c"}
(* the reader never invents structure: the number of atoms read never exceeds the tokens consumed *)
Progress     == [][Len(m'.buf) < Len(m.buf) \/ m'.st # "run"]_vars
=============================================================================
