SPECIFICATION Spec
CONSTANT MaxLen = 4
INVARIANT TypeOK
INVARIANT Emit
PROPERTY AnswersOnce
CHECK_DEADLOCK FALSE
