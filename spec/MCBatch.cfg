SPECIFICATION Spec
CONSTANTS
  Sents <- S4
  Lex <- LexQ
  Needs <- NeedsQ
  Fails <- FailsQ
  MaxProcs = 3
  ChunkSizes <- Chunks13
INVARIANT ChunksOK
INVARIANT IdsInjective
INVARIANT CacheCoherent
INVARIANT Aligned
INVARIANT OwnFailureOnly
INVARIANT Emit
PROPERTY TableAppendOnly
CHECK_DEADLOCK FALSE
