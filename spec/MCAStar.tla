------------------------------- MODULE MCAStar -------------------------------
(* Model-checking instances of AStar.tla: three synthetic grammar families.  *)
EXTENDS AStar
CONSTANT Fam, NW, HeadLeft
MinusOne == -1
Scores01 == {0, -1}
Scores013 == {0, -1, -3}
Scores0 == {0}
R(c, lab, hl) == [c |-> c, lab |-> lab, sym |-> lab, hl |-> hl]
U(c, lab) == [c |-> c, lab |-> lab, sym |-> lab]
B(x, y, res) == [x |-> x, y |-> y, res |-> res]
Words == [i \in 1..NW |-> "w"]
Dummy == [i \in 1..NW |-> <<>>]
Base(K, C, bin, un, roots, pen, prune) ==
  [N |-> NW, K |-> K, C |-> C, tag |-> Dummy, dep |-> Dummy, bin |-> bin, un |-> un, roots |-> roots,
   pen |-> pen, prune |-> prune, usebeta |-> FALSE, b16 |-> 1, words |-> Words]
(* plain: 2 lexical categories, 3 categories, one result per pair *)
GPlain == Base(2, 3, << B(1, 2, <<R(3, "a", HeadLeft)>>), B(3, 2, <<R(3, "b", HeadLeft)>>), B(1, 3, <<R(3, "c", HeadLeft)>>),
                       B(2, 2, <<R(2, "d", HeadLeft)>>), B(1, 1, <<R(1, "e", HeadLeft)>>), B(2, 1, <<R(3, "f", HeadLeft)>>) >>,
               <<>>, <<3>>, 0, 2)
(* unary + several differently labelled results per pair, two roots, a penalty, pruning to one tag off *)
GUnary == Base(2, 4, << B(1, 2, <<R(3, "a", HeadLeft), R(4, "a2", HeadLeft), R(3, "a3", HeadLeft)>>), B(3, 2, <<R(3, "b", HeadLeft)>>),
                        B(1, 3, <<R(4, "c", HeadLeft)>>), B(4, 4, <<R(4, "g", HeadLeft)>>), B(2, 2, <<R(2, "d", HeadLeft)>>),
                        B(1, 1, <<R(1, "e", HeadLeft)>>), B(4, 2, <<R(3, "h", HeadLeft)>>), B(3, 3, <<R(4, "i", HeadLeft)>>) >>,
               << [x |-> 1, res |-> <<U(3, "u1"), U(4, "u2")>>], [x |-> 2, res |-> <<U(4, "u3")>>], [x |-> 3, res |-> <<U(4, "u4")>>] >>,
               <<3, 4>>, 1, 2)
(* beam: 3 lexical categories, pruning size 2 and the beta filter on *)
GBeam == [Base(3, 4, << B(1, 2, <<R(4, "a", HeadLeft)>>), B(4, 3, <<R(4, "b", HeadLeft)>>), B(1, 3, <<R(4, "c", HeadLeft)>>),
                        B(2, 3, <<R(4, "d", HeadLeft)>>), B(4, 2, <<R(4, "e", HeadLeft)>>), B(3, 3, <<R(3, "f", HeadLeft)>>),
                        B(2, 2, <<R(2, "g", HeadLeft)>>), B(1, 1, <<R(4, "h", HeadLeft)>>) >>,
               <<>>, <<4>>, 0, 2) EXCEPT !.usebeta = TRUE, !.b16 = 23]
Gram == CASE Fam = "plain" -> GPlain [] Fam = "unary" -> GUnary [] Fam = "beam" -> GBeam
=============================================================================
