SPECIFICATION Spec
CONSTANT Sel = "d2"
INVARIANT EqImpliesBlindEq
INVARIANT BlindEqReflSym
INVARIANT ClearLaws
INVARIANT ShowInjective
CHECK_DEADLOCK FALSE
