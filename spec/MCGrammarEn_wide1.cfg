SPECIFICATION Spec
CONSTANT Sel = "wide1"
INVARIANT MustIsJustified
INVARIANT AtomNoFunctor
INVARIANT MustFunctional
INVARIANT Emit
CHECK_DEADLOCK FALSE
