----------------------------- MODULE CatReaderOps ---------------------------
(* C05: the category reader as a shift-reduce state machine over a token    *)
(* sequence, one action per branch.  Tokens are [s |-> text, f |-> feature] *)
(* (f is the structured reading of a feature token, NoF otherwise: TLC      *)
(* cannot look inside strings, so the "=/," rule for feature text is        *)
(* applied by whoever produces tokens -- Show in the spec, a 20-line lexer  *)
(* in the harness).                                                         *)
(*                                                                          *)
(* Step is a pure function of the machine record so that Run (iterate to a  *)
(* final state) can be used as the oracle in trace validation.              *)
EXTENDS Cat

IsOpen(x)  == x \in {"(", "<"}
IsClose(x) == x \in {")", ">"}
IsSlash(x) == x \in Slashes
Match(o, c) == (o = "(" /\ c = ")") \/ (o = "<" /\ c = ">")

(* stack elements *)
TokE(s) == [tk |-> "t", s |-> s]
CatE(c) == [tk |-> "c", c |-> c]

Dummy == Atom("?", NoF)
Start(toks) == [buf |-> toks, stk |-> <<>>, st |-> "run", out |-> Dummy]
Rej(m) == [m EXCEPT !.st = "rej"]

(* which branch applies (also the action name used for coverage) *)
Branch(m) ==
  IF Len(m.buf) = 0 THEN
       IF Len(m.stk) = 1 /\ m.stk[1].tk = "c" THEN "Finish1"
       ELSE IF Len(m.stk) = 3 /\ m.stk[1].tk = "c" /\ m.stk[2].tk = "t" /\ IsSlash(m.stk[2].s) /\ m.stk[3].tk = "c"
            THEN "Finish3" ELSE "Reject"
  ELSE LET x == Head(m.buf).s  rest == Tail(m.buf)  n == Len(m.stk) IN
       IF IsOpen(x) THEN "Open"
       ELSE IF IsSlash(x) THEN "Slash"
       ELSE IF IsClose(x) THEN
            IF n >= 2 /\ m.stk[n].tk = "c" /\ m.stk[n-1].tk = "t" /\ IsOpen(m.stk[n-1].s)
            THEN (IF Match(m.stk[n-1].s, x) THEN "CloseRedundant" ELSE "Reject")
            ELSE IF n >= 4 /\ m.stk[n].tk = "c" /\ m.stk[n-1].tk = "t" /\ IsSlash(m.stk[n-1].s) /\ m.stk[n-2].tk = "c"
                      /\ m.stk[n-3].tk = "t" /\ IsOpen(m.stk[n-3].s)
            THEN (IF Match(m.stk[n-3].s, x) THEN "CloseReduce" ELSE "Reject")
            ELSE "Reject"
       ELSE IF x \in {"[", "]"} THEN "Reject"
       ELSE IF x \in Puncts THEN "PunctAtom"
       ELSE IF Len(rest) >= 3 /\ rest[1].s = "[" /\ rest[3].s = "]" THEN "FeatAtom"
       ELSE "BareAtom"

Step(m) ==
  LET b == Branch(m)  n == Len(m.stk) IN
  CASE b = "Finish1" -> [m EXCEPT !.st = "ok", !.out = m.stk[1].c]
    [] b = "Finish3" -> [m EXCEPT !.st = "ok", !.out = Fun(m.stk[1].c, m.stk[2].s, m.stk[3].c)]
    [] b = "Reject"  -> Rej(m)
    [] b = "Open"    -> [m EXCEPT !.buf = Tail(m.buf), !.stk = Append(m.stk, TokE(Head(m.buf).s))]
    [] b = "Slash"   -> [m EXCEPT !.buf = Tail(m.buf), !.stk = Append(m.stk, TokE(Head(m.buf).s))]
    [] b = "CloseRedundant" -> [m EXCEPT !.buf = Tail(m.buf), !.stk = Append(SubSeq(m.stk, 1, n-2), m.stk[n])]
    [] b = "CloseReduce" -> [m EXCEPT !.buf = Tail(m.buf),
                               !.stk = Append(SubSeq(m.stk, 1, n-4), CatE(Fun(m.stk[n-2].c, m.stk[n-1].s, m.stk[n].c)))]
    [] b = "PunctAtom" -> [m EXCEPT !.buf = Tail(m.buf), !.stk = Append(m.stk, CatE(Atom(Head(m.buf).s, NoF)))]
    [] b = "FeatAtom"  -> [m EXCEPT !.buf = SubSeq(m.buf, 5, Len(m.buf)),
                                    !.stk = Append(m.stk, CatE(Atom(Head(m.buf).s, m.buf[3].f)))]
    [] b = "BareAtom"  -> [m EXCEPT !.buf = Tail(m.buf), !.stk = Append(m.stk, CatE(Atom(Head(m.buf).s, NoF)))]

RECURSIVE Run(_)
Run(m) == IF m.st # "run" THEN m ELSE Run(Step(m))
Read(toks) == Run(Start(toks))

(* ---- every decorated text of a value: each sub-term may get redundant pairs, round or angle ---- *)
Rnd(ts) == <<Tok("(")>> \o ts \o <<Tok(")")>>
Ang(ts) == <<Tok("<")>> \o ts \o <<Tok(">")>>
Wraps(ts, d) == IF d > 0 THEN {ts, Rnd(ts), Ang(ts)} ELSE {ts}
RECURSIVE Texts(_, _), OperandTexts(_, _)
OperandTexts(c, d) == IF c.k = "F" THEN UNION {{Rnd(ts), Ang(ts)} : ts \in Texts(c, d)} ELSE Texts(c, d)
Texts(c, d) == IF c.k = "A" THEN Wraps(Show(c), d)
               ELSE UNION {Wraps(a \o <<Tok(c.s)>> \o b, d) : a \in OperandTexts(c.l, d - 1), b \in OperandTexts(c.r, d - 1)}
(* flattened: the brackets of ONE functor operand removed, at the root or inside a bracketed sub-term, so that two
   slashes share a level *)
RECURSIVE Flats(_)
Flats(c) == IF c.k = "A" THEN {}
            ELSE (IF c.l.k = "F" THEN {Show(c.l) \o <<Tok(c.s)>> \o Operand(c.r)} ELSE {})
                 \cup (IF c.r.k = "F" THEN {Operand(c.l) \o <<Tok(c.s)>> \o Show(c.r)} ELSE {})
                 \cup {Rnd(t) \o <<Tok(c.s)>> \o Operand(c.r) : t \in Flats(c.l)}
                 \cup {Operand(c.l) \o <<Tok(c.s)>> \o Rnd(t) : t \in Flats(c.r)}
(* remove redundant brackets = canonical text of the value read *)
Canonical(toks) == Show(Read(toks).out)
=============================================================================
