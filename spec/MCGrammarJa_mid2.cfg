SPECIFICATION Spec
CONSTANT Sel = "mid2"
INVARIANT SchemaIsJustified
INVARIANT HeadLeftNeverJustified
INVARIANT CrossedKeepsBackslash
INVARIANT Emit
CHECK_DEADLOCK FALSE
