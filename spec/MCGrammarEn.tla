----------------------------- MODULE MCGrammarEn -----------------------------
(* Laws of the English rule relation on bounded universes + test vectors.   *)
EXTENDS GrammarEn, Json
CONSTANT Sel
AtomsWide == {Sf("dcl"), Sf("X"), Sf("em"), A0("S"), A0("NP"), Atom("NP", UF("nb")), A0("N"), A0(","), A0("conj"), A0("LRB")}
AtomsMid  == {Sf("dcl"), Sf("X"), A0("NP"), A0("N")}
AtomsTiny == {Sf("dcl"), A0("NP")}
PB == {",", ".", ";", ":", "LRB", "RRB", "LQU", "RQU"}
D1w == CatsUpTo(1, AtomsWide, Slashes)
D1t == CatsUpTo(1, AtomsTiny, {"/", "\\"})
D2t == CatsUpTo(2, AtomsTiny, {"/", "\\"})
D1m == CatsUpTo(1, AtomsMid, {"/", "\\"})
D2m == CatsUpTo(2, AtomsMid, {"/", "\\"})
Pairs == CASE Sel = "wide1" -> D1w \X D1w
           [] Sel = "tiny2" -> (D2t \X D1t) \cup (D1t \X D2t)
           [] Sel = "mid2"  -> (D2m \X D1m) \cup (D1m \X D2m)
VARIABLES x, y
vars == <<x, y>>
Init == \E p \in Pairs : x = p[1] /\ y = p[2]
Next == FALSE /\ UNCHANGED vars
Spec == Init /\ [][Next]_vars

SymOf(op) == IF op = "lp" THEN SymLp ELSE Sym(op)
xe == NbErase(x)
ye == NbErase(y)
(* whatever must be produced is itself justified *)
MustIsJustified == \A q \in EnMust(xe, ye, PB) :
                      EnWhy(xe, ye, [c |-> q.c, op |-> q.op, symcp |-> SymOf(q.op), hl |-> TRUE], PB) = ""
(* nothing is justified from an atom in functor position *)
AtomNoFunctor == (xe.k = "A" /\ ye.k = "A") =>
                    \A op \in {"fa", "ba", "fc", "bx", "gfc", "gbx"}, r \in {xe, ye} :
                       EnWhy(xe, ye, [c |-> r, op |-> op, symcp |-> SymOf(op), hl |-> TRUE], PB) # ""
(* at most one category is required per label *)
MustFunctional == \A q1, q2 \in EnMust(xe, ye, PB) : q1.op = q2.op => q1 = q2
Emit == PrintT("VEC " \o ToJson([x |-> x, y |-> y, must |-> Cardinality(EnMust(xe, ye, PB))]))
=============================================================================
