------------------------------ MODULE UnifyObj ------------------------------
(* C06, life-cycle of one matcher object: it answers once; bindings can be  *)
(* read only after a successful answer.  Disabled actions are calls that     *)
(* must be refused (raise).                                                  *)
EXTENDS Naturals, Sequences, TLC, Json
CONSTANT MaxLen
VARIABLES phase, h
vars == <<phase, h>>
Init == phase = "fresh" /\ h = <<>>
CallOk   == phase = "fresh" /\ phase' = "ok"     /\ h' = Append(h, "call_ok")
CallFail == phase = "fresh" /\ phase' = "failed" /\ h' = Append(h, "call_fail")
Get      == phase = "ok"    /\ UNCHANGED phase   /\ h' = Append(h, "get")
(* refused calls leave the object as it is *)
Refused(a) == /\ CASE a = "call_ok" -> phase # "fresh" [] a = "call_fail" -> phase # "fresh" [] a = "get" -> phase # "ok"
              /\ UNCHANGED phase /\ h' = Append(h, "refused_" \o a)
Next == Len(h) < MaxLen /\ (CallOk \/ CallFail \/ Get \/ \E a \in {"call_ok", "call_fail", "get"} : Refused(a))
Spec == Init /\ [][Next]_vars
AnswersOnce == [][phase # "fresh" => phase' = phase]_vars
TypeOK == phase \in {"fresh", "ok", "failed"}
Emit == Len(h) = MaxLen => PrintT("VEC " \o ToJson(h))
=============================================================================
