------------------------------- MODULE CatLaws -------------------------------
(* C13: laws of equality, feature-blind comparison and feature erasure,     *)
(* checked on every pair (and, for transitivity, every triple) of a bounded *)
(* universe.  The machine has no transitions: each initial state is a pair. *)
EXTENDS Cat, Json
CONSTANT Sel
TFeat1 == TF(KV("mod", "nm", FALSE), KV("form", "X1", TRUE), KV("fin", "f", FALSE))
TFeat2 == TF(KV("mod", "nm", FALSE), KV("form", "base", FALSE), KV("fin", "f", FALSE))
TFeat3 == TF(KV("mod", "nm", FALSE), KV("form", "base", FALSE), KV("fin", "t", FALSE))      \* differs from TFeat2 in the third pair only
TFeat4 == TF(KV("case", "nm", FALSE), KV("mod", "base", FALSE), KV("fin", "f", FALSE))     \* the values of TFeat2 under other key names
AtomsA == {Atom("S", NoF), Atom("S", UF("dcl")), Atom("NP", UF("X")), Atom("NP", UF("nb")), Atom(",", NoF),
           Atom("S", TFeat1), Atom("S", TFeat2), Atom("S", TFeat3), Atom("S", TFeat4)}
AtomsB == {Atom("S", UF("dcl")), Atom("S", NoF), Atom("NP", UF("nb")), Atom("S", TFeat1)}
U == CASE Sel = "d1" -> CatsUpTo(1, AtomsA, Slashes)
       [] Sel = "d2" -> CatsUpTo(2, AtomsB, {"/", "\\"})
FeatSets == SUBSET {UF("dcl"), UF("X"), UF("nb"), TFeat1}

VARIABLES a, b
(* d2: single values only (pairs of the depth-2 universe are 6.9 M initial states) *)
Init == a \in U /\ b \in (IF Sel = "d2" THEN {a} ELSE U)
Next == FALSE /\ UNCHANGED <<a, b>>
Spec == Init /\ [][Next]_<<a, b>>

BlindEq(x, y) == Blind(x) = Blind(y)
EqImpliesBlindEq == a = b => BlindEq(a, b)
BlindEqReflSym   == BlindEq(a, a) /\ (BlindEq(a, b) <=> BlindEq(b, a))
BlindEqTrans     == BlindEq(a, b) => \A c \in U : BlindEq(b, c) => BlindEq(a, c)
ClearLaws == \A fs \in FeatSets :
                LET c == ClearFeats(a, fs) IN
                /\ FeatSet(c) \cap (fs \ {NoF}) = {}                 \* removes the named features everywhere
                /\ ClearFeats(c, fs) = c                             \* idempotent
                /\ Blind(c) = Blind(a)                               \* changes nothing but features
                /\ FeatSet(c) \subseteq FeatSet(a) \cup {NoF}        \* introduces nothing
                /\ (FeatSet(a) \cap fs = {} => c = a)                \* nothing to erase => unchanged
                /\ Len(Leaves(c)) = Len(Leaves(a))
                /\ \A i \in DOMAIN Leaves(a) : Leaves(a)[i].f \notin fs => Leaves(c)[i] = Leaves(a)[i]
ShowInjective == Show(a) = Show(b) => a = b
(* spec -> code: the universe itself *)
EmitUniverse == a = b => PrintT("VEC " \o ToJson(a))
=============================================================================
