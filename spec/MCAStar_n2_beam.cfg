SPECIFICATION Spec
CONSTANTS
  Fam = "beam"
  NW = 2
  HeadLeft = TRUE
  G <- Gram
  TagScores <- Scores013
  DepScores <- Scores013
  KBestN = 1
  MaxStep = 1000
  EstSign = 1
  Ties = "canonical"
INVARIANT TypeOK
INVARIANT Terminal
INVARIANT Monotone
INVARIANT ParentNotBetter
INVARIANT TreesValid
INVARIANT KBestDistinctSorted
CHECK_DEADLOCK FALSE
