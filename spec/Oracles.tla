------------------------------- MODULE Oracles -------------------------------
(* Independent oracles for the parser properties (C01 C02 C09 C10 C12 C16):  *)
(* beam admission, k-best scores of all derivations by bottom-up CKY with    *)
(* unary closure and head tracking, and evaluation of a returned tree.       *)
(* A problem instance is a record t:                                         *)
(*   N, K (lexical categories 1..K), C (all categories 1..C),                *)
(*   tag[i][c] (i in 1..N, c in 1..K), dep[i][h+1] (h = 0 root, else head), *)
(*   bin = << [x, y, res: <<[c, lab, sym, hl]>>] >>,                          *)
(*   un  = << [x, res: <<[c, lab, sym]>>] >>, roots (sequence of ids),       *)
(*   pen, prune, usebeta, b16 (= -16 ln beta, odd; scores are 8 x value),    *)
(*   words.  Scores are integers (8 x), NEG stands for "no derivation".      *)
EXTENDS Integers, Sequences, FiniteSets, TLC

NEG == -100000000
MaxS(S) == CHOOSE x \in S : \A y \in S : y <= x
Min2(a, b) == IF a < b THEN a ELSE b
Range(s) == {s[i] : i \in DOMAIN s}

BinRes(t, x, y) == LET m == SelectSeq(t.bin, LAMBDA e : e.x = x /\ e.y = y) IN IF Len(m) = 0 THEN <<>> ELSE m[1].res
UnRes(t, x)     == LET m == SelectSeq(t.un,  LAMBDA e : e.x = x) IN IF Len(m) = 0 THEN <<>> ELSE m[1].res

(* ---------------- beam (C16), three-valued at ties on the pruning boundary ---------------- *)
BestTag(t, i) == MaxS({t.tag[i][c] : c \in 1..t.K})
(* probability below beta x best  <=>  8*(s - best) < 8 ln beta  <=>  2*(s8 - best8) < -b16 ; b16 odd: never on the threshold *)
BetaOut(t, i, c) == t.usebeta /\ 2 * (t.tag[i][c] - BestTag(t, i)) < -t.b16
CertExcluded(t, i, c) == \/ Cardinality({d \in 1..t.K : t.tag[i][d] > t.tag[i][c]}) >= t.prune
                         \/ BetaOut(t, i, c)
CertAdmitted(t, i, c) == /\ Cardinality({d \in 1..t.K : d # c /\ t.tag[i][d] >= t.tag[i][c]}) < t.prune
                         /\ ~BetaOut(t, i, c)
NoBoundaryTie(t) == \A i \in 1..t.N, c \in 1..t.K : CertExcluded(t, i, c) \/ CertAdmitted(t, i, c)

(* ---------------- k-best oracle: cell = [<<c, h>> -> descending sequence of scores] ---------------- *)
Keys(t) == (1..t.C) \X (1..t.N)
KeySeq(t) == [p \in 1..(t.C * t.N) |-> <<((p - 1) \div t.N) + 1, ((p - 1) % t.N) + 1>>]
TopK(kk, s) == LET srt == SortSeq(s, LAMBDA a, b : a > b) IN TLCEval(SubSeq(srt, 1, Min2(kk, Len(srt))))
RECURSIVE Flat(_)
Flat(ss) == IF Len(ss) = 0 THEN <<>> ELSE ss[1] \o Flat(Tail(ss))
(* derivations obtained from `cell` by exactly one more unary step *)
UnLayer(t, kk, cell) ==
  TLCEval([key \in Keys(t) |->
     TopK(kk, Flat([ j \in 1..t.C |->
            LET src == cell[<<j, key[2]>>]
                n   == Len(SelectSeq(UnRes(t, j), LAMBDA r : r.c = key[1]))
            IN IF n = 0 \/ Len(src) = 0 THEN <<>>
               ELSE Flat([ rep \in 1..n |-> [q \in 1..Len(src) |-> src[q] - t.pen] ]) ]))])
Merge(t, kk, a, b) == TLCEval([key \in Keys(t) |-> TopK(kk, a[key] \o b[key])])
RECURSIVE Closure(_, _, _, _, _)
Closure(t, kk, acc, layer, d) ==
  IF d = 0 \/ \A key \in Keys(t) : Len(layer[key]) = 0 THEN acc
  ELSE LET nxt == UnLayer(t, kk, layer) IN Closure(t, kk, Merge(t, kk, acc, nxt), nxt, d - 1)
WithUnary(t, kk, cell) == Closure(t, kk, cell, cell, t.C)

LeafCell(t, kk, adm(_, _), i) ==
  TLCEval([key \in Keys(t) |-> IF key[2] = i /\ key[1] \in 1..t.K /\ adm(i, key[1]) THEN <<t.tag[i][key[1]]>> ELSE <<>>])

BinCell(t, kk, tbl, s, ln) ==
  LET ks == KeySeq(t) IN
  TLCEval([key \in Keys(t) |->
     TopK(kk, Flat([ m \in 1..(ln - 1) |->
       Flat([ p \in DOMAIN ks |->
         LET k1 == ks[p]  L1 == tbl[<<s, m>>][k1] IN
         IF Len(L1) = 0 THEN <<>> ELSE
         Flat([ q \in DOMAIN ks |->
           LET k2 == ks[q]
               L2 == tbl[<<s + m, ln - m>>][k2]
           IN IF Len(L2) = 0 THEN <<>> ELSE
              LET rs == SelectSeq(BinRes(t, k1[1], k2[1]),
                        LAMBDA r : r.c = key[1] /\ (IF r.hl THEN k1[2] ELSE k2[2]) = key[2])
              IN IF Len(rs) = 0 THEN <<>>
              ELSE Flat([ ri \in 1..Len(rs) |->
                     LET h  == IF rs[ri].hl THEN k1[2] ELSE k2[2]
                         ch == IF rs[ri].hl THEN k2[2] ELSE k1[2]
                     IN Flat([ a \in 1..Len(L1) |-> [ b \in 1..Len(L2) |-> L1[a] + L2[b] + t.dep[ch][h + 1] ] ]) ]) ]) ]) ]))])

RECURSIVE Table(_, _, _, _)
Table(t, kk, adm(_, _), ln) ==
  IF ln = 1 THEN TLCEval([sp \in {<<s, 1>> : s \in 1..t.N} |-> WithUnary(t, kk, LeafCell(t, kk, adm, sp[1]))])
  ELSE LET prev == Table(t, kk, adm, ln - 1)
           new  == [sp \in {<<s, ln>> : s \in 1..(t.N - ln + 1)} |->
                      LET c0 == BinCell(t, kk, prev, sp[1], ln)
                      IN IF ln # t.N THEN WithUnary(t, kk, c0) ELSE c0]
       IN TLCEval(prev @@ new)
(* the kk best scores (with multiplicity) over all derivations with an allowed root, root attachment included *)
KBest(t, kk, adm(_, _)) ==
  LET top == Table(t, kk, adm, t.N)[<<1, t.N>>]  ks == KeySeq(t)
  IN TopK(kk, Flat([ p \in DOMAIN ks |->
        LET key == ks[p]
        IN IF key[1] \in Range(t.roots) THEN [q \in 1..Len(top[key]) |-> top[key][q] + t.dep[key[2]][1]] ELSE <<>> ]))

(* ---------------- evaluation of a returned tree (C02 C09 C12a C16) ---------------- *)
(* node = [k: "L"|"U"|"B", c, w (leaf: word position), word, lab, sym, hl, kids] *)
RECURSIVE Eval(_, _, _)
Eval(t, nd, start) ==
  IF nd.k = "L" THEN
       [ok |-> nd.w = start /\ nd.c \in 1..t.K /\ start <= t.N /\ (start <= t.N => nd.word = t.words[start]),
        adm |-> nd.c \in 1..t.K /\ start <= t.N /\ ~CertExcluded(t, start, nd.c),
        c |-> nd.c, h |-> start, sc |-> IF nd.c \in 1..t.K /\ start <= t.N THEN t.tag[start][nd.c] ELSE NEG, n |-> 1, lic |-> TRUE, un |-> 0]
  ELSE IF nd.k = "U" THEN
       LET kd == Eval(t, nd.kids[1], start)
           rs == UnRes(t, kd.c)
           hit == \E i \in DOMAIN rs : rs[i].c = nd.c /\ rs[i].lab = nd.lab /\ rs[i].sym = nd.sym
           cat == \E i \in DOMAIN rs : rs[i].c = nd.c
       IN [ok |-> kd.ok /\ cat, adm |-> kd.adm, c |-> nd.c, h |-> kd.h, sc |-> kd.sc - t.pen, n |-> kd.n,
           lic |-> kd.lic /\ (cat => hit), un |-> kd.un + 1]
  ELSE LET a == Eval(t, nd.kids[1], start)
           b == Eval(t, nd.kids[2], start + a.n)
           rs == BinRes(t, a.c, b.c)
           hit == \E i \in DOMAIN rs : rs[i].c = nd.c /\ rs[i].lab = nd.lab /\ rs[i].sym = nd.sym /\ rs[i].hl = nd.hl
           cat == \E i \in DOMAIN rs : rs[i].c = nd.c
           h  == IF nd.hl THEN a.h ELSE b.h
           ch == IF nd.hl THEN b.h ELSE a.h
       IN [ok |-> a.ok /\ b.ok /\ cat, adm |-> a.adm /\ b.adm, c |-> nd.c, h |-> h,
           sc |-> IF h <= t.N /\ ch <= t.N THEN a.sc + b.sc + t.dep[ch][h + 1] ELSE NEG, n |-> a.n + b.n,
           lic |-> a.lic /\ b.lic /\ (cat => hit), un |-> a.un + b.un]
=============================================================================
