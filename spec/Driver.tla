-------------------------------- MODULE Driver --------------------------------
(* The command-line driver (depccg/__main__.py: main) as a state machine, one   *)
(* action per stage of its loop, written to be bound to the code: the real main *)
(* is run on inputs generated from this module and the stage calls it makes     *)
(* (annotate / of_piped, predict_doc, apply_category_filters, parsing.run,      *)
(* print_) are recorded and replayed against these actions by                   *)
(* traces/DriverTrace.tla.                                                      *)
(*                                                                              *)
(* The input is a sequence of lines; a line is abstracted to its kind:          *)
(*   "blank"  empty after strip()                                               *)
(*   "ok"     words separated by single blanks (tagged format: w|pos|ner items)  *)
(*   "gap"    two words separated by two blanks: split(' ') yields an empty     *)
(*            word in between ("raw": a token with the empty word is parsed;    *)
(*            "tagged": Token.of_piped('') fails its field-count assertion)     *)
(*   "ok4", "ok5"   like "ok" with 4 / 5 fields per item (w|lemma|pos|ner[|chunk]) *)
(*   "bad2", "bad6" items of 2 / 6 fields: the tagged format knows 3, 4 or 5    *)
(* ("ok" items have 3 fields, w|pos|ner).  With the raw format an item is a     *)
(* word whatever it contains.  What a printed record shows of its tokens is the *)
(* layout of the line: "xx" nothing but the word (Token.of_word), "f3" pos and  *)
(* entity, "f4" lemma too, "f5" chunk too; missing attributes read XX.          *)
(* What the code does is modelled, including what it arguably should not do:    *)
(*   - main passes the argparse namespace as read_params' second positional     *)
(*     parameter (disable_category_dictionary): the namespace is truthy, so the *)
(*     dictionary is never loaded whatever --disable-category-dictionary says,  *)
(*     and --disable-seen-rules is never looked at (DictionaryNeverLoaded)      *)
(*   - at a terminal, end of input raises EOFError out of input()               *)
(* None of the 20 listed properties is about the driver; its invariants are the *)
(* composition facts a user relies on (one record per non-blank line, in order).*)
EXTENDS Naturals, Sequences, FiniteSets, TLC, Json
CONSTANTS MaxLines
Kinds == {"blank", "ok", "gap", "ok4", "ok5", "bad2", "bad6"}
BadTagged == {"gap", "bad2", "bad6"}                 \* lines Token.of_piped refuses
LayoutOf(kind, fmt) == IF fmt = "raw" THEN "xx" ELSE CASE kind = "ok" -> "f3" [] kind = "ok4" -> "f4" [] kind = "ok5" -> "f5" [] OTHER -> "none"
VARIABLES lines,      \* the whole input
          source,     \* "file" | "pipe" | "keyboard"
          infmt,      \* "raw" | "tagged"
          dictoff,    \* the --disable-category-dictionary switch
          pc, unread, batch, cats, dict, out, iter,
          lay         \* what the printed records show of their tokens, one layout per record
vars == <<lines, source, infmt, dictoff, pc, unread, batch, cats, dict, out, iter, lay>>

SeqsUpTo(S, n) == UNION {[1..k -> S] : k \in 0..n}
Init == /\ lines \in SeqsUpTo(Kinds, MaxLines)
        /\ source \in {"file", "pipe", "keyboard"} /\ infmt \in {"raw", "tagged"} /\ dictoff \in BOOLEAN
        /\ pc = "setup" /\ unread = <<>> /\ batch = <<>> /\ cats = "unset" /\ dict = "unset" /\ out = <<>> /\ iter = 0 /\ lay = <<>>

(* set_global_language_to, get_annotator, load_model, read_params(config, args) *)
Setup == /\ pc = "setup" /\ pc' = "read" /\ unread' = [i \in DOMAIN lines |-> i]
         /\ dict' = "none"                                         \* DictionaryNeverLoaded: `args` is truthy
         /\ UNCHANGED <<lines, source, infmt, dictoff, batch, cats, out, iter, lay>>

NonBlank(ix) == SelectSeq(ix, LAMBDA i : lines[i] # "blank")
(* a file or a pipe is read to its end in one go; blank lines are dropped *)
ReadAll == /\ pc = "read" /\ source \in {"file", "pipe"}
           /\ batch' = NonBlank(unread) /\ unread' = <<>> /\ pc' = "check" /\ iter' = iter + 1
           /\ UNCHANGED <<lines, source, infmt, dictoff, cats, dict, out, lay>>
(* at a terminal one line is read per round *)
ReadOne == /\ pc = "read" /\ source = "keyboard" /\ unread # <<>>
           /\ batch' = NonBlank(<<Head(unread)>>) /\ unread' = Tail(unread) /\ pc' = "check" /\ iter' = iter + 1
           /\ UNCHANGED <<lines, source, infmt, dictoff, cats, dict, out, lay>>
ReadEOF == /\ pc = "read" /\ source = "keyboard" /\ unread = <<>>
           /\ pc' = "eof_error"                                     \* input() raises EOFError; main does not catch it
           /\ UNCHANGED <<lines, source, infmt, dictoff, unread, batch, cats, dict, out, iter, lay>>
(* nothing but blank lines: the loop ends *)
Check == /\ pc = "check"
         /\ pc' = (IF batch = <<>> THEN "done" ELSE "tokenize")
         /\ UNCHANGED <<lines, source, infmt, dictoff, unread, batch, cats, dict, out, iter, lay>>
(* "tagged": Token.of_piped on every blank-separated item; "raw": annotate_XX (Token.of_word) *)
Tokenize == /\ pc = "tokenize"
            /\ pc' = (IF infmt = "tagged" /\ \E i \in DOMAIN batch : lines[batch[i]] \in BadTagged THEN "assertion_error" ELSE "tag")
            /\ UNCHANGED <<lines, source, infmt, dictoff, unread, batch, cats, dict, out, iter, lay>>
(* supertagger.predict_doc; the category list is parsed on the first round only *)
Tag == /\ pc = "tag" /\ pc' = "filter" /\ cats' = "parsed"
       /\ UNCHANGED <<lines, source, infmt, dictoff, unread, batch, dict, out, iter, lay>>
(* apply_category_filters is called only with a dictionary: never, see Setup *)
Filter == /\ pc = "filter" /\ pc' = "parse"
          /\ UNCHANGED <<lines, source, infmt, dictoff, unread, batch, cats, dict, out, iter, lay>>
(* depccg.parsing.run: one result list per sentence, in order (Batch.tla) *)
Parse == /\ pc = "parse" /\ pc' = "print"
         /\ UNCHANGED <<lines, source, infmt, dictoff, unread, batch, cats, dict, out, iter, lay>>
(* print_: one record per sentence; a file or pipe is done after one round, a terminal reads on *)
Render == /\ pc = "print" /\ out' = out \o batch /\ lay' = lay \o [i \in DOMAIN batch |-> LayoutOf(lines[batch[i]], infmt)]
         /\ pc' = (IF source = "keyboard" THEN "read" ELSE "done")
         /\ UNCHANGED <<lines, source, infmt, dictoff, unread, batch, cats, dict, iter>>
Next == Setup \/ ReadAll \/ ReadOne \/ ReadEOF \/ Check \/ Tokenize \/ Tag \/ Filter \/ Parse \/ Render
Spec == Init /\ [][Next]_vars /\ WF_vars(Next)

Terminal == pc \in {"done", "eof_error", "assertion_error"}
All == [i \in DOMAIN lines |-> i]
RECURSIVE UpToBlank(_)
UpToBlank(ix) == IF ix = <<>> \/ lines[Head(ix)] = "blank" THEN <<>> ELSE <<Head(ix)>> \o UpToBlank(Tail(ix))
(* what a user relies on *)
OneRecordPerLineInOrder ==
  pc = "done" => out = (IF source = "keyboard" THEN UpToBlank(All) ELSE NonBlank(All))
OutputIsPrefixOfInput == \A i \in DOMAIN out : out[i] = NonBlank(All)[i]          \* never reordered, never invented
KeyboardEndsOnlyOnBlankOrEOF == (source = "keyboard" /\ pc = "done") => \E i \in DOMAIN lines : lines[i] = "blank"
AssertionOnlyForTaggedGap == pc = "assertion_error" => infmt = "tagged" /\ \E i \in DOMAIN lines : lines[i] \in BadTagged
AttributesAreTheInputs == /\ Len(lay) = Len(out)
                          /\ \A i \in DOMAIN out : lay[i] = LayoutOf(lines[out[i]], infmt) /\ lay[i] # "none"
CategoriesParsedOnce == cats = "parsed" => iter >= 1
DictionaryNeverLoaded == dict # "loaded"                                           \* documents the code, see header
Terminates == <>Terminal
(* spec -> code: every terminal state is a test vector *)
Emit == Terminal => PrintT("VEC " \o ToJson([lines |-> lines, source |-> source, infmt |-> infmt, dictoff |-> dictoff,
                                              pc |-> pc, out |-> out, iter |-> iter, lay |-> lay]))
=============================================================================
