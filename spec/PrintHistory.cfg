SPECIFICATION Spec
CONSTANTS
  Formats = {"auto", "auto_extended", "conll", "deriv", "html", "json", "ptb", "xml", "jigg_xml", "prolog", "ja", "ccg2lambda"}
  MaxLen = 3
  Objs = {"o"}
INVARIANT SameAsFresh
INVARIANT Emit
PROPERTY ObjectsUnchanged
CHECK_DEADLOCK FALSE
