SPECIFICATION Spec
CONSTANTS
  Universe <- Univ
  Sel = "u2emit"
  DecoDepth = 1
INVARIANT RoundTrip
INVARIANT FlatRejected
INVARIANT EmitVectors
CHECK_DEADLOCK FALSE
