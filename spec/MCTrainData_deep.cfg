SPECIFICATION MCSpec
CONSTANTS
  Cats = {"NP", "S/NP"}
  Words = {"w"}
  MaxTrees = 1
  Depth = 2
  CatCut = 1
  WordCut = 1
INVARIANT FilesAreTheCounts
INVARIANT OneSamplePerKeptTree
INVARIANT ReservedWordsAlwaysWritten
INVARIANT SeenRulesOverTargetsOnly
INVARIANT BankIsTheTrees
INVARIANT Emit
PROPERTY CountsOnlyGrow
PROPERTY Terminates
CHECK_DEADLOCK FALSE
