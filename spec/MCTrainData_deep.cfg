SPECIFICATION MCSpec
CONSTANTS
  Cats = {"NP", "S/NP"}
  Words = {"vw"}
  MaxTrees = 1
  Depth = 2
  CatCut = 1
  WordCut = 1
  AfixCut = 1
  SpellOf <- MCSpellOf
INVARIANT FilesAreTheCounts
INVARIANT OneSamplePerKeptTree
INVARIANT ReservedWordsAlwaysWritten
INVARIANT SeenRulesOverTargetsOnly
INVARIANT AfixReservedAlwaysWritten
INVARIANT FourAffixesPerLeaf
INVARIANT ShortWordsFeedTheMarkers
INVARIANT BankIsTheTrees
INVARIANT Emit
PROPERTY CountsOnlyGrow
PROPERTY Terminates
CHECK_DEADLOCK FALSE
