SPECIFICATION Spec
CONSTANTS
  Universe <- Univ
  Sel = "u2big"
  DecoDepth = 1
INVARIANT RoundTrip
INVARIANT PrintStable
INVARIANT FlatRejected
INVARIANT NeverStuck
CHECK_DEADLOCK FALSE
