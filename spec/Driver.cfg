SPECIFICATION Spec
CONSTANT MaxLines = 3
INVARIANT OneRecordPerLineInOrder
INVARIANT OutputIsPrefixOfInput
INVARIANT KeyboardEndsOnlyOnBlankOrEOF
INVARIANT AssertionOnlyForTaggedGap
INVARIANT CategoriesParsedOnce
INVARIANT DictionaryNeverLoaded
INVARIANT AttributesAreTheInputs
INVARIANT Emit
PROPERTY Terminates
CHECK_DEADLOCK FALSE
