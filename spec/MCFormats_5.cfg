SPECIFICATION Spec
CONSTANT MaxLeaves = 5
INVARIANT DepsOneRoot
INVARIANT DepsAcyclic
INVARIANT DepsInsideSpans
INVARIANT AutoRoundTrip
INVARIANT AutoSensitive
INVARIANT DerivRoundTrip
INVARIANT DerivSensitive
CHECK_DEADLOCK FALSE
