----------------------------- MODULE MCGrammarJa -----------------------------
(* Laws of the Japanese rule relation on bounded universes + test vectors.  *)
EXTENDS GrammarJa, Json
CONSTANT Sel
T3(a, b, c) == TF(a, b, c)
Sa  == Atom("S",  T3(KV("mod", "nm", FALSE), KV("form", "base", FALSE), KV("fin", "f", FALSE)))
Sc  == Atom("S",  T3(KV("mod", "nm", FALSE), KV("form", "cont", FALSE), KV("fin", "f", FALSE)))
Sx  == Atom("S",  T3(KV("mod", "X1", TRUE), KV("form", "X2", TRUE), KV("fin", "f", FALSE)))
Nga == Atom("NP", T3(KV("case", "ga", FALSE), KV("mod", "nm", FALSE), KV("fin", "f", FALSE)))
No  == Atom("NP", T3(KV("case", "o", FALSE), KV("mod", "nm", FALSE), KV("fin", "f", FALSE)))
Tiny == {Sa, Sx, Nga}
Mid  == {Sa, Sc, Sx, Nga}
Sl   == {"/", "\\"}
D1t == CatsUpTo(1, Tiny, Sl)
D2t == CatsUpTo(2, Tiny, Sl)
D1m == CatsUpTo(1, Mid, Sl)
D2m == CatsUpTo(2, Mid, Sl)
(* left spines ((B\C)|D)|E ... with up to n outer arguments *)
RECURSIVE Spines(_)
Spines(n) == IF n = 0 THEN {Fun(b, "\\", c) : b \in Tiny, c \in Tiny}
             ELSE Spines(n - 1) \cup {Fun(s, sl, a) : s \in Spines(n - 1), sl \in Sl, a \in {Sa, Nga}}
Bwd == {Fun(a, "\\", b) : a \in Tiny \cup {Fun(Sa, "\\", Nga)}, b \in Tiny}
Fwd == {Fun(a, "/", b) : a \in Tiny \cup {Fun(Sa, "\\", Nga)}, b \in Tiny}
Roots == {Sa, Sc}
Pairs == CASE Sel = "tiny2" -> (D2t \X D1t) \cup (D1t \X D2t)
           [] Sel = "mid2"  -> (D2m \X D1m) \cup (D1m \X D2m)
           [] Sel = "spine" -> (Spines(3) \X Bwd) \cup (Fwd \X Spines(2)) \cup ({Sa, Sc, Sx, Nga} \X {Sa, Sc, Sx, Nga})
VARIABLES x, y
vars == <<x, y>>
Init == \E p \in Pairs : x = p[1] /\ y = p[2]
Next == FALSE /\ UNCHANGED vars
Spec == Init /\ [][Next]_vars

R(sym, c) == [c |-> c, op |-> "", sym |-> sym, hl |-> FALSE]
(* the result the schema builds when the matched parts are identical *)
SchemaResults ==
     (IF x.k = "F" /\ x.s = "/" /\ x.r = y THEN {R(">", IF IsModifier(x) THEN y ELSE x.l)} ELSE {})
\cup (IF y.k = "F" /\ y.s = "\\" /\ y.r = x THEN {R("<", IF IsModifier(y) THEN x ELSE y.l)} ELSE {})
\cup (IF x.k = "F" /\ y.k = "F" /\ x.s = "/" /\ y.s = "/" /\ x.r = y.l THEN {R(">B", IF IsModifier(x) THEN y ELSE Fun(x.l, "/", y.r))} ELSE {})
\cup UNION {LET p == Peel(x, n) IN
            IF y.k = "F" /\ y.s = "\\" /\ p.ok /\ p.core.k = "F" /\ p.core.s = "\\" /\ y.r = p.core.l
            THEN {R(<<"<B1", "<B2", "<B3", "<B4">>[n + 1], IF IsModifier(y) THEN x ELSE Rebuild(Fun(y.l, "\\", p.core.r), p.args))} ELSE {} : n \in 0..3}
\cup UNION {LET p == Peel(y, n) IN
            IF x.k = "F" /\ x.s = "/" /\ p.ok /\ p.core.k = "F" /\ p.core.s = "\\" /\ x.r = p.core.l
            THEN {R(<<">Bx1", ">Bx2", ">Bx3">>[n + 1], IF IsModifier(x) THEN y ELSE Rebuild(Fun(x.l, "\\", p.core.r), p.args))} ELSE {} : n \in 0..2}
\cup (IF x \in Roots /\ y \in Roots THEN {R("SSEQ", y)} ELSE {})
SchemaIsJustified == \A r \in SchemaResults : JaWhy(x, y, r, Roots) = ""
HeadLeftNeverJustified == \A r \in SchemaResults : JaWhy(x, y, [r EXCEPT !.hl = TRUE], Roots) # ""
(* crossed composition: a forward slash in the result of a non-modifier >Bx1 is never justified *)
CrossedKeepsBackslash == (x.k = "F" /\ x.s = "/" /\ ~IsModifier(x) /\ y.k = "F" /\ y.s = "\\" /\ x.r = y.l)
                            => JaWhy(x, y, R(">Bx1", Fun(x.l, "/", y.r)), Roots) # ""
Emit == PrintT("VEC " \o ToJson([x |-> x, y |-> y, n |-> Cardinality(SchemaResults),
                                 nonmod |-> Cardinality({r \in SchemaResults : r.c # x /\ r.c # y})]))
=============================================================================
