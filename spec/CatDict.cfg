SPECIFICATION Spec
CONSTANTS
  Words = {"a", "b", "c"}
  NCat = 3
  MaxSent = 2
  MaxTok = 2
INVARIANT ListedKept
INVARIANT OthersNeg
INVARIANT UnlistedWordsUntouched
INVARIANT DepsAndOrderUntouched
INVARIANT Idempotent
INVARIANT Emit
CHECK_DEADLOCK FALSE
