SPECIFICATION Spec
CONSTANTS
  Keys = {k1, k2, k3}
  Results = {r1, r2}
  Procs = {p1, p2}
  SeenSets = {{k1}, {k1, k2}}
  MaxObs = 4
INVARIANT Reproducible
INVARIANT ObservationAgrees
INVARIANT FilterOnlyRemoves
INVARIANT FilterMembership
PROPERTY MemoStable
CHECK_DEADLOCK FALSE
