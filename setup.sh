#!/bin/sh
# offline setup: verify tools, create build dir. Nothing is compiled from /repo here;
# every check rebuilds what it needs from the current working tree of $VERIF_REPO (/repo).
set -e
cd "$(dirname "$0")"
mkdir -p build evidence
command -v tlc >/dev/null || { echo "tlc missing" >&2; exit 2; }
command -v g++ >/dev/null || { echo "g++ missing" >&2; exit 2; }
/venv/bin/python -c "import numpy, lxml" || { echo "python deps missing" >&2; exit 2; }
echo setup ok
